#!/usr/bin/env python3
"""Regenerates the seeded-change table of DESIGN.md (between the seeded-table markers) from seeded/*/meta.json."""
import glob, json, os, re
root = os.path.dirname(os.path.dirname(os.path.abspath(__file__)))
rows = []
for d in sorted(x for x in glob.glob(os.path.join(root, "seeded", "*")) if os.path.isdir(x)):
    m = json.load(open(os.path.join(d, "meta.json")))
    name = os.path.basename(d)
    summary = re.sub(r"\s+", " ", m.get("summary", "")).replace("|", "/")
    if len(summary) > 230:
        summary = summary[:230] + "…"
    res = re.sub(r"\s+", " ", str(m.get("checks_run_against_it", ""))).replace("|", "/")
    if len(res) > 170:
        res = res[:170] + "…"
    rows.append(f"| {name} | {summary} | {res} |")
table = "| seed | what the change does | which check catches it |\n|------|----------------------|------------------------|\n" + "\n".join(rows) + "\n"
p = os.path.join(root, "DESIGN.md")
s = open(p).read()
b, e = "<!-- seeded-table-begin -->\n", "<!-- seeded-table-end -->\n"
if b in s:
    s = s[: s.index(b) + len(b)] + table + s[s.index(e):]
else:
    i = s.index("| seed | what the change does")
    j = s.rindex("\n| C20-")
    j = s.index("\n", j + 1) + 1
    s = s[:i] + b + table + e + s[j:]
open(p, "w").write(s)
print(len(rows), "rows")
