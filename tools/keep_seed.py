#!/usr/bin/env python3
"""usage: keep_seed.py <src seed dir> <dest name> <verify RESULT line> <detected-by text>
Copies a confirmed seeded change into /verif/seeded/<dest name>/ with an extended meta.json."""
import json, os, shutil, sys
src, dest, result, detected = sys.argv[1:5]
out = os.path.join("/verif/seeded", dest)
os.makedirs(out, exist_ok=True)
shutil.copy(os.path.join(src, "patch.diff"), os.path.join(out, "patch.diff"))
if os.path.isdir(os.path.join(out, "demo")):
    shutil.rmtree(os.path.join(out, "demo"))
shutil.copytree(os.path.join(src, "demo"), os.path.join(out, "demo"))
meta = json.load(open(os.path.join(src, "meta.json")))
meta["confirmed_by_me"] = {
    "how": "tools/verify_seed.sh in the sub-agent's scratch worktree of /repo HEAD: demo run with the change (must fail), with the change reverted via git apply -R (must pass), and the 37 existing tests with the change and the demo removed (must pass)",
    "result_line": result,
}
meta["checks_run_against_it"] = detected
json.dump(meta, open(os.path.join(out, "meta.json"), "w"), indent=1)
print("kept", out)
