#!/usr/bin/env python3
import json, sys, glob, jsonschema
schema = json.load(open("/root/.vp/EVIDENCE.schema.json"))
bad = 0
for f in sorted(glob.glob("/verif/evidence/*.json")) if len(sys.argv) < 2 else sys.argv[1:]:
    try:
        jsonschema.validate(json.load(open(f)), schema)
        d = json.load(open(f))
        print("ok ", f, d["tier"], "evals", d["coverage"]["evaluations"], "nontrivial", d["coverage"]["distinct_nontrivial"], "viol", d.get("violations"))
    except Exception as e:
        bad += 1
        print("BAD", f, str(e)[:300])
sys.exit(1 if bad else 0)
