#!/usr/bin/env python3
"""Regenerates /verif/MANIFEST.json from the table below and validates it against the schema."""
import json, sys, os
ROOT = os.path.dirname(os.path.dirname(os.path.abspath(__file__)))

# id -> (technique, level text, level note, design ref)
CHECKS = {
 "C08": ("exhaustive enumeration of all 65535 day counts per carrier against closed-form epoch arithmetic + Hinnant civil-from-days",
         "Every in-domain day count is enumerated for all seven date/time carriers (with boundary and seeded times of day, and all 1440 minutes on sampled days); the accessor must equal (d-1) days + t exactly, by two independent computations. Out-of-domain values are probed on a fixed grid for the no-panic clause. The day axis is complete; the time axis is sampled.",
         "Trusted: closed-form arithmetic in harness/src/model.rs, the independent wire encoder (field offsets), chrono's getters used only to read back the returned value.",
         "DESIGN.md §4 C08"),
 "C10": ("exhaustive enumeration (256 type codes, 65536 sizes x 16 pairs) + proptest over (count, number) pairs and full headers, oracle = independent encoder offsets and the documented size rule",
         "The type and size axes are enumerated completely; the 2^32 (count, number) space and the remaining header fields are sampled with proptest (hundreds of thousands to millions of cases). Each header is encoded by an independent encoder, decoded by the code, and every accessor compared with the rule in the property statement.",
         "Trusted: independent wire encoder offsets; the type table transcribed from the ICD/enum documentation. rda_redundant_channel judged on its six defined codes only.",
         "DESIGN.md §4 C10"),
}
NOT_YET = {}  # id -> reason (only while a check is not built)

props = [json.loads(l) for l in open(os.path.join(ROOT, "properties.jsonl"))]
ids = [p["id"] for p in props]
checks = []
for pid in ids:
    if pid in CHECKS:
        tech, text, note, ref = CHECKS[pid]
        checks.append({
            "property_id": pid,
            "quick_cmd": f"./check {pid} quick",
            "thorough_cmd": f"./check {pid} thorough",
            "evidence_file": f"/verif/evidence/{pid}.json",
            "replay_cmd_template": f"./check {pid} quick --replay {{path}}",
            "engine": "nexrad-verif" if pid != "C20" else "featmatrix",
            "level_claimed": {"category": "exploration", "text": text, "design_ref": ref},
            "level_note": note,
            "technique": tech,
        })
na = [{"property_id": pid, "reason": NOT_YET.get(pid, "check not built yet (work in progress; see DESIGN.md §4 for the planned generator and oracle)")}
      for pid in ids if pid not in CHECKS]
manifest = {
    "version": 1,
    "setup_cmd": "cd /verif && ./setup.sh",
    "hooks": {
        "guard": "cargo feature verif-hooks on nexrad-data",
        "enable": "the harness crates depend on /repo/nexrad-data by path with features = [\"verif-hooks\"]; the hook adds an S3 endpoint override (env NEXRAD_VERIF_S3_ENDPOINT) and a public wrapper of the crate-private rotated search",
        "baseline_off_cmd": "cd /repo && CARGO_NET_OFFLINE=true cargo test --workspace --no-fail-fast --offline",
        "source_commits": ["d535433"],
        "add_only": True,
    },
    "engines": [
        {"name": "nexrad-verif", "path": "/verif/harness", "serves_properties": [p for p in ids if p in CHECKS and p != "C20"],
         "kind_free_text": "Rust binary: seeded proptest runners (16 workers), exhaustive enumerators, independent ICD wire encoder, reference models, loopback S3 simulator under tokio's paused clock; writes evidence and shrunk replay files"},
    ],
    "checks": checks,
    "not_applicable": na,
    "notes": "All checks are generated-input search (proptest / enumeration / libFuzzer) against explicit oracles; see DESIGN.md. Exit 2 = inconclusive (build failure, watchdog, generator health), never a violation.",
}
out = os.path.join(ROOT, "MANIFEST.json")
json.dump(manifest, open(out, "w"), indent=1)
try:
    import jsonschema
    jsonschema.validate(manifest, json.load(open("/root/.vp/MANIFEST.schema.json")))
    print("MANIFEST.json valid;", len(checks), "checks,", len(na), "not claimed")
except ImportError:
    print("jsonschema unavailable; wrote", out)
