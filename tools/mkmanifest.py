#!/usr/bin/env python3
"""Regenerates /verif/MANIFEST.json from the table below and validates it against the schema."""
import json, sys, os
ROOT = os.path.dirname(os.path.dirname(os.path.abspath(__file__)))

# id -> (technique, level text, level note, design ref)
CHECKS = {
 "C01": ("proptest over generated volume specs (thorough: + structured libFuzzer target) (header + bzip2 LDM records of an independently encoded message stream); oracle = the spec as independent record + run-length grouping model + C07 closed forms",
         "Hundreds (quick) to tens of thousands (thorough) of generated volumes - single radial, single elevation, SAILS-like revisits, final run of one, 720-radial sweeps, metadata frames anywhere, arbitrary record splits, 8/16-bit moments - plus full-size 14x720 volumes; File::scan must return exactly the encoded radials in order, grouped in maximal runs, with the first VOL block's VCP. Sampled, not exhaustive. The thorough tier adds a structured coverage-guided libFuzzer campaign (volume_scan: fuzzer bytes decoded into a generated case via arbitrary::Unstructured, the same oracle inside the target).",
         "Trusted: the independent wire/container encoder, libbz2 as compressor, the run-length model. Record splits only at message boundaries; every record bzip2-compressed, as the statement prescribes.",
         "DESIGN.md §4 C01"),
 "C02": ("enumeration of all 1024 block subsets with fingerprint values + proptest over layouts/values (thorough: + structured libFuzzer target); oracle = independent encoder byte offsets, per field",
         "Every block subset is covered with values that differ per field (so transposed same-typed fields are visible) under several pointer/physical orders, gaps and decode offsets; random messages add arbitrary values (floats by bit pattern), gates to 65535 and both word sizes. ~90 fields compared individually. The thorough tier adds a structured coverage-guided libFuzzer campaign (type31_fidelity: fuzzer bytes decoded into a generated case via arbitrary::Unstructured, the same oracle inside the target).",
         "Trusted: independent encoder offsets (type-31 header 32 B, VOL 52, ELV 12, RAD 28, moment header 28 + gates*word/8). Duplicate names / overlapping blocks are C04's domain.",
         "DESIGN.md §4 C02"),
 "C03": ("proptest over message sequences (all 256 type codes, contiguous type-31) with a truncation sweep (thorough: + structured libFuzzer target); oracle = per-message spec comparison, equality with stand-alone decoding, boundary model for cuts",
         "Streams of 0..600 messages; N in = N out, message i equals its stand-alone decoding and its spec; every cut point (small streams) or +-40 bytes around boundaries plus random points must give exactly k messages inside a header fragment and an error inside a body; same through Record::messages. The thorough tier adds a structured coverage-guided libFuzzer campaign (stream_framing: fuzzer bytes decoded into a generated case via arbitrary::Unstructured, the same oracle inside the target).",
         "Trusted: independent encoder and the C02/C10/C11/C12 comparators. Type-31 layouts contiguous with finite floats, as the statement restricts.",
         "DESIGN.md §4 C03"),
 "C04": ("structure-aware mutation (proptest) + exhaustive short lengths + random bytes, thorough tier adds coverage-guided libFuzzer; oracle = catch_unwind, counting allocator bound, per-call timer around every decode entry point",
         "Every entry point of the decode crate and the radial conversion are run on mutated valid streams (field-directed extremes: counts, pointers, names, gates, word sizes), all lengths 0..=128, every prefix of valid streams and random buffers to 8 KiB; no panic, peak allocation <= 16 MiB + 64*len, calls timed. The thorough tier adds a 16-process libFuzzer campaign with the same oracle inside the target.",
         "Observed bounds, not proofs: termination and memory are measured per input; a slow call is inconclusive (exit 2). Accessor panics on out-of-domain codes are outside the statement.",
         "DESIGN.md §4 C04"),
 "C05": ("proptest over container specs (header, records, payload kinds); oracle = tiling identities and payload round-trip",
         "Generated files with 0..40 records, positive/negative prefixes, zero-length bodies, payloads that are empty, tiny, 64-300 KiB, fake-magic, themselves bzip2, or valid message streams: records() tiles the remainder exactly, compressed() iff 'BZ' follows the prefix, decompress() returns the payload byte-for-byte, the error cases are errors, header accessors return the encoded values.",
         "Trusted: independent container encoder; libbz2 only produces bodies, the oracle is the payload.",
         "DESIGN.md §4 C05"),
 "C06": ("exhaustive boundary lengths + every truncation point of valid volumes/chunks + proptest corruption of size prefixes and bzip2 bodies + random bytes, thorough tier adds libFuzzer; oracle = catch_unwind + timer around every public call, shorter-list shape",
         "All lengths 0..=64 (plain and magic-prefixed), every truncation point of generated volumes and chunks (with the prefix-consistent shorter-list shape), corrupted size prefixes (0, 1, remainder+-1, i32::MAX/MIN, -1), corrupted bzip2 bodies and random bytes: File/Record/Chunk operations incl. Debug and scan return a value or an error.",
         "Observed, not proved; a slow call is inconclusive.",
         "DESIGN.md §4 C06"),
 "C07": ("proptest over messages built from public fields + exhaustive raw-value tables (all 256 / 65536 raws) under thousands of (scale, offset) pairs; oracle = closed-form map and decode-vs-model differential",
         "radial() == into_radial(), every accessor mapped from the header, one value per gate by the closed form for 8- and 16-bit moments, decode level == model level; every raw value of both word sizes is enumerated per (scale, offset) table.",
         "Float tolerance 1e-6 relative; scale == 0 with raw in {0,1} only requires the two levels to agree.",
         "DESIGN.md §4 C07"),
 "C08": ("exhaustive enumeration of all 65535 day counts per carrier against closed-form epoch arithmetic + Hinnant civil-from-days",
         "Every in-domain day count is enumerated for all seven date/time carriers (with boundary and seeded times of day, and all 1440 minutes on sampled days); the accessor must equal (d-1) days + t exactly, by two independent computations. Out-of-domain values are probed on a fixed grid for the no-panic clause. The day axis is complete; the time axis is sampled.",
         "Trusted: closed-form arithmetic in harness/src/model.rs, the independent wire encoder (field offsets), chrono's getters used only to read back the returned value.",
         "DESIGN.md §4 C08"),
 "C09": ("proptest over run lists and sweep pairs + exhaustive small sequences; oracle = run-length and stable-merge reference models",
         "All sequences of length <= 7 over three elevation values, plus generated sequences up to 2000 radials (single radial, final run of one, revisits) and sweep pairs with duplicated/unsorted azimuths: conservation, labelling, maximality, stable tie order, mismatch error.",
         "Trusted: the two reference models; radial identity carried in a unique tag.",
         "DESIGN.md §4 C09"),
 "C10": ("exhaustive enumeration (256 type codes, 65536 sizes x 16 pairs) + proptest over (count, number) pairs and full headers, oracle = independent encoder offsets and the documented size rule",
         "The type and size axes are enumerated completely; the 2^32 (count, number) space and the remaining header fields are sampled with proptest (hundreds of thousands to millions of cases). Each header is encoded by an independent encoder, decoded by the code, and every accessor compared with the rule in the property statement.",
         "Trusted: independent wire encoder offsets; the type table transcribed from the ICD/enum documentation. rda_redundant_channel judged on its six defined codes only.",
         "DESIGN.md §4 C10"),
 "C11": ("exhaustive 2^16 / 2^8 raw values per accessor + proptest over frames with every cut count; oracle = independent encoder offsets, closed forms, documented bit ranges",
         "All 65536 raw values for every angle, rate, threshold and bit-field accessor (plain and uom), all 256 for byte codes; layout of header and cuts for every k in 0..=51 through both entry points; declared counts 52..65535 must be errors.",
         "Trusted: encoder offsets and the closed forms quoted in the property.",
         "DESIGN.md §4 C11"),
 "C12": ("exhaustive 2^16 per flag word / coded field / alarm code + proptest over 60-halfword messages; oracle = per-halfword offsets, documented code table, one-bit flip analysis",
         "Every documented (code, meaning) pair, exhaustive one-bit analysis of every flag accessor, all 65536 alarm codes, all raw values of the scaled fields, and random 60-halfword messages compared halfword by halfword through both entry points.",
         "Code tables come from the in-source field documentation; where value and bit label disagree both readings are admitted (see DESIGN §4 C12); spare/undocumented codes are not judged.",
         "DESIGN.md §4 C12"),
 "C13": ("proptest over clutter-map specs + truncation sweep; oracle = spec round-trip and prefix => error",
         "Bodies with 0..255 segments x 360 azimuths x 0..25 (some 65535) zones decode to exactly the encoded structure; every truncation point near the start, around segment boundaries and at random positions must be an error.",
         "Segment numbering base 0 or 1 admitted; reached through the direct entry point only.",
         "DESIGN.md §4 C13"),
 "C14": ("proptest over message lists decoded from generated specs (thorough: + structured libFuzzer target); oracle = reference grouping/counting model on the decoded messages' public fields",
         "Lists of up to ~500 messages interleaving radial runs, status, VCP and opaque messages: tiling, counts, maximal runs, singleton status/VCP groups, continuation flag, data-type counts, first/last azimuth and time, time range, VCP set, info structs. The thorough tier adds a structured coverage-guided libFuzzer campaign (summary_model: fuzzer bytes decoded into a generated case via arbitrary::Unstructured, the same oracle inside the target).",
         "Coded fields kept inside their documented domains (the statement's precondition).",
         "DESIGN.md §4 C14"),
 "C15": ("exhaustive enumeration of all bucket shapes (sizes 1..=64 and 999) through a guarded wrapper of the search + proptest over shapes against a loopback S3 simulator; oracle = newest populated directory, request log",
         "All 998 002 production-size shapes and all shapes for sizes 1..64 go through the real search routine; the real get_latest_volume runs over HTTP against simulated buckets (boundary positions fixed, others sampled): result, call count == requests logged, probes only SITE/<1..999>/ with max-keys=1, logarithmic bound.",
         "Hook: feature verif-hooks (search wrapper, endpoint override). Contiguous run with distinct increasing times, as the statement restricts.",
         "DESIGN.md §4 C15"),
 "C16": ("exhaustive 999 x 55 position space and full successor cycles + proptest over archive names and arbitrary Unicode strings; oracle = parse-back, successor model, no-panic",
         "Every (volume, sequence) position with three prefixes, all 55x55 with_sequence pairs, five complete 54 945-step cycles, sampled valid archive names (leap days boosted) and strings with multi-byte characters straddling the slice offsets.",
         "name_prefix/next_chunk only on names of >= 15 bytes.",
         "DESIGN.md §4 C16"),
 "C17": ("proptest over bucket worlds and fault responses against a loopback S3 simulator; oracle = simulator contents and request log",
         "Thousands of generated listings (escaped / non-ASCII keys, decoys, sizes to 2^64-1, timestamp formats, truncation, bad Size, garbled bodies) and downloads (0 B..2 MiB, 200/404/other statuses, Last-Modified variants, cut transfers) through the four public functions.",
         "Hook: endpoint override. Keys restricted to the documented segment forms and XML-carriable characters; non-claimed faults exercised for totality only.",
         "DESIGN.md §4 C17"),
 "C18": ("model-based proptest (world scripts shrink as one value) against a scripted S3 simulator under tokio's paused clock, with the two consumer races gated; oracle = history invariants vs the uploader model",
         "Hundreds (quick) to thousands (thorough) of scenarios: start positions incl. 997/998/999/1 and sequence 55, per-chunk delays and transient faults, uploader ahead at volume switches, wrap 999->1, stop / dropped consumer after k deliveries, missing chunk; deliveries must follow the script exactly, payloads and labels intact, outcome as specified, no skipping ahead.",
         "Interleavings = request-count-driven visibility + two gated races; liveness bounded by a 60 s real-time watchdog (inconclusive, not violation).",
         "DESIGN.md §4 C18"),
 "C19": ("exhaustive sequences 1..=200 per cut list (all resolution patterns up to 10 cuts) + proptest over cut lists and timing histories; oracle = cumulative-walk and rolling-mean models",
         "Chunk->cut mapping over every sequence for enumerated and generated cut lists; estimates for every kind of previous chunk (incl. 0, >55, non-numeric), histories of up to 50 samples over several keys, stats present or not.",
         "Attempt adjustment only bounded (formula not fixed by the statement); wall-clock base cases only bounded below.",
         "DESIGN.md §4 C19"),
 "C20": ("enumeration of the feature power-set with the compiler as oracle (per cell: cargo build of the library target, cargo check --all-targets; thorough also cargo build --all-targets for every eighth cell), failing cells shrunk by greedy feature removal",
         "Thorough: all 1044 cells (8+4+8+1024) plus cross-crate dep/feature cells (1331 in all). Quick: all cells of the three small crates, ~20 structured and 150 seeded cells of nexrad-data, and the cross-crate cells (219 in all). Feature lists are read from the Cargo.toml files of the working tree.",
         "rustc/cargo are the oracle; warnings are not failures; verif-hooks is excluded.",
         "DESIGN.md §4 C20"),
}
NOT_YET = {}  # id -> reason (only while a check is not built)

props = [json.loads(l) for l in open(os.path.join(ROOT, "properties.jsonl"))]
ids = [p["id"] for p in props]
checks = []
for pid in ids:
    if pid in CHECKS:
        tech, text, note, ref = CHECKS[pid]
        checks.append({
            "property_id": pid,
            "quick_cmd": f"./check {pid} quick",
            "thorough_cmd": f"./check {pid} thorough",
            "evidence_file": f"/verif/evidence/{pid}.json",
            "replay_cmd_template": f"./check {pid} quick --replay {{path}}",
            "engine": "nexrad-verif" if pid != "C20" else "featmatrix",
            "level_claimed": {"category": "exploration", "text": text, "design_ref": ref},
            "level_note": note + (" Run under two builds of the harness: default (release + debug assertions + overflow checks) and cargo profile nodebug (a user's --release build)." if pid in ("C07", "C08", "C10", "C11", "C12", "C16", "C19") else ""),
            "technique": tech,
        })
na = [{"property_id": pid, "reason": NOT_YET.get(pid, "check not built yet (work in progress; see DESIGN.md §4 for the planned generator and oracle)")}
      for pid in ids if pid not in CHECKS]
manifest = {
    "version": 1,
    "setup_cmd": "cd /verif && ./setup.sh",
    "hooks": {
        "guard": "cargo feature verif-hooks on nexrad-data",
        "enable": "the harness crates depend on /repo/nexrad-data by path with features = [\"verif-hooks\"]; the hook adds an S3 endpoint override (env NEXRAD_VERIF_S3_ENDPOINT) and a public wrapper of the crate-private rotated search",
        "baseline_off_cmd": "cd /repo && CARGO_NET_OFFLINE=true cargo test --workspace --no-fail-fast --offline",
        "source_commits": ["d535433"],
        "add_only": True,
    },
    "engines": [
        {"name": "featmatrix", "path": "/verif/featmatrix.py", "serves_properties": ["C20"], "kind_free_text": "Python driver: cargo build (library) + cargo check --all-targets over the enumerated feature power-set and cross-crate dep/feature cells, greedy shrinking of failing cells"},
        {"name": "nexrad-verif", "path": "/verif/harness", "serves_properties": [p for p in ids if p in CHECKS and p != "C20"],
         "kind_free_text": "Rust binary: seeded proptest runners (16 workers), exhaustive enumerators, independent ICD wire encoder, reference models, loopback S3 simulator under tokio's paused clock; writes evidence and shrunk replay files"},
    ],
    "checks": checks,
    "not_applicable": na,
    "notes": "All checks are generated-input search (proptest / enumeration / libFuzzer) against explicit oracles; see DESIGN.md. Exit 2 = inconclusive (build failure, watchdog, generator health), never a violation.",
}
out = os.path.join(ROOT, "MANIFEST.json")
json.dump(manifest, open(out, "w"), indent=1)
try:
    import jsonschema
    jsonschema.validate(manifest, json.load(open("/root/.vp/MANIFEST.schema.json")))
    print("MANIFEST.json valid;", len(checks), "checks,", len(na), "not claimed")
except ImportError:
    print("jsonschema unavailable; wrote", out)
