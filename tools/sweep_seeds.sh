#!/bin/bash
# For `vp run --with-repo -- tools/sweep_seeds.sh`: applies every kept seeded change (seeded/*/patch.diff) to a private snapshot
# of /repo, runs the quick check of its property (plus any extra check named in EXTRA below) against it, and records whether a
# VIOLATION was reported.  Works on snapshots only: /repo itself is never touched.  Output: work/seed-sweep.txt
set -u
cd "$(dirname "$0")/.." || exit 2
export VERIF_ROOT="$PWD" CARGO_TARGET_DIR="$PWD/work/target" CARGO_NET_OFFLINE=true
REPO="${VP_RUN_REPO:?needs vp run --with-repo}"
sed -i "s#\"/repo/#\"$REPO/#g" harness/Cargo.toml
export VERIF_REPO="$REPO"
mkdir -p work evidence
OUT=work/seed-sweep.txt; : > "$OUT"
for d in seeded/*/; do
  s=$(basename "$d"); id=${s%-*}
  [ -n "${ONLY:-}" ] && ! echo " $ONLY " | grep -q " $s " && continue
  git -C "$REPO" checkout -q -- . ; git -C "$REPO" clean -fdq
  if ! git -C "$REPO" apply "$PWD/$d/patch.diff" 2>/dev/null; then echo "$s APPLY-FAILED" >> "$OUT"; continue; fi
  t0=$(date +%s)
  ./check "$id" quick > work/sweep-$s.out 2>&1; rc=$?
  t1=$(date +%s)
  sig=$(grep -a -A1 "^VIOLATION" work/sweep-$s.out | grep -a -o "\[[^]]*\]" | head -1)
  echo "$s rc=$rc $((t1-t0))s $sig" >> "$OUT"
  rm -f work/sweep-$s.out
done
git -C "$REPO" checkout -q -- . ; git -C "$REPO" clean -fdq
echo "caught: $(grep -c ' rc=1 ' "$OUT") of $(wc -l < "$OUT")"; grep -v ' rc=1 ' "$OUT"
