#!/bin/bash
# usage: tools/verify_seed.sh <ID> [suffix]  -- independent confirmation of a seeded change in the agent's scratch worktree
# checks: (1) demo fails with the change, (2) demo passes without it, (3) the 37 existing tests pass with the change
set -u
ID="$1"; SFX="${2:-}"
WT=/tmp/wt-$ID$SFX; OUT=/tmp/seed-$ID$SFX
export CARGO_NET_OFFLINE=true
cd "$WT" || exit 2
CMD=$(python3 -c "import json;print(json.load(open('$OUT/meta.json'))['demo_command'])")
CMD=$(echo "$CMD" | sed "s#^cd [^ ]* && ##")
echo "demo command: $CMD"
git apply -R --check "$OUT/patch.diff" 2>/dev/null || { echo "worktree does not contain exactly the patch; re-applying"; git checkout -- . ; git apply "$OUT/patch.diff" || exit 2; }
echo "--- with change (expect FAIL)"
bash -c "$CMD" > /tmp/vs-$ID-with.log 2>&1; RC_WITH=$?
grep -E "^test result|panicked|FAILED" /tmp/vs-$ID-with.log | head -5
git apply -R "$OUT/patch.diff" || exit 2
echo "--- without change (expect PASS)"
bash -c "$CMD" > /tmp/vs-$ID-without.log 2>&1; RC_WITHOUT=$?
grep -E "^test result|panicked|FAILED" /tmp/vs-$ID-without.log | head -5
git apply "$OUT/patch.diff" || exit 2
echo "--- existing suite with change, demo removed (expect 37 passed)"
mkdir -p /tmp/vs-$ID-demo-away
git ls-files --others --exclude-standard | grep -v '^target/' > /tmp/vs-$ID-untracked.txt
while read -r f; do mkdir -p "/tmp/vs-$ID-demo-away/$(dirname "$f")"; mv "$f" "/tmp/vs-$ID-demo-away/$f"; done < /tmp/vs-$ID-untracked.txt
cargo test --workspace --no-fail-fast --offline > /tmp/vs-$ID-suite.log 2>&1; RC_SUITE=$?
PASSED=$(grep -E "^test result" /tmp/vs-$ID-suite.log | awk '{s+=$4} END {print s}')
while read -r f; do mv "/tmp/vs-$ID-demo-away/$f" "$f"; done < /tmp/vs-$ID-untracked.txt
echo "RESULT $ID$SFX demo_with_change_rc=$RC_WITH demo_without_change_rc=$RC_WITHOUT suite_rc=$RC_SUITE suite_passed=$PASSED"
