#!/bin/bash
# usage: tools/try_seed.sh <patch.diff> <tier> <ID> [<ID>...]   -- applies the patch to /repo, runs the checks, reverts
set -u
PATCH="$1"; TIER="$2"; shift 2
cd /repo || exit 2
if [ -n "$(git status --porcelain)" ]; then echo "/repo is not clean"; exit 2; fi
git apply "$PATCH" || { echo "patch does not apply"; exit 2; }
cd /verif
for id in "$@"; do
  start=$(date +%s)
  out=$(./check "$id" "$TIER" 2>&1 | grep -a -v "^proptest: Abort")
  rc=$?
  end=$(date +%s)
  echo "== $id $TIER: $(echo "$out" | grep -a -c '^VIOLATION') violation line(s), $((end-start)) s"
  echo "$out" | grep -a -A1 "^VIOLATION" | head -6
  echo "$out" | grep -a -E "^INCONCLUSIVE|^C[0-9]+ " | tail -2
done
git -C /repo apply -R "$PATCH" 2>/dev/null || git -C /repo checkout -- .
git -C /repo checkout -- .
git -C /repo status --porcelain | head -3
