#!/bin/bash
# For `vp run --with-repo -- tools/isolated_thorough.sh [ids...]`: a full thorough run on a snapshot of /verif AND of /repo's HEAD,
# so that work in /verif and /repo (seeded changes!) can go on meanwhile.  Results are informational (DESIGN.md §7.2); the
# committed evidence files are always written by ./check in /verif against /repo itself.
set -u
cd "$(dirname "$0")/.." || exit 2
export VERIF_ROOT="$PWD" CARGO_TARGET_DIR="$PWD/work/target" CARGO_NET_OFFLINE=true
if [ -n "${VP_RUN_REPO:-}" ]; then
  sed -i "s#\"/repo/#\"$VP_RUN_REPO/#g" harness/Cargo.toml
  export VERIF_REPO="$VP_RUN_REPO"
fi
mkdir -p work evidence
tools/run_all.sh thorough "$@"
