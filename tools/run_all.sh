#!/bin/bash
# usage: tools/run_all.sh <quick|thorough> [ids...]  -- runs checks sequentially, prints one line per check.
# Thorough evidence files are copied to evidence-thorough/ (the committed evidence/ holds quick-tier runs, which
# is what a fresh restore reproduces).
cd "$(dirname "$0")/.." || exit 2
TIER="$1"; shift
IDS="${*:-C01 C02 C03 C04 C05 C06 C07 C08 C09 C10 C11 C12 C13 C14 C15 C16 C17 C18 C19 C20}"
mkdir -p work evidence-thorough
for id in $IDS; do
  s=$(date +%s)
  ./check $id $TIER > work/run_all.$$.out 2>&1; rc=$?
  e=$(date +%s)
  echo "$id $TIER rc=$rc wall=$((e-s))s :: $(grep -E "^C[0-9]+ (quick|thorough)|fuzz:" work/run_all.$$.out | cut -c1-400 | tr '\n' ' ')"
  grep -E "^VIOLATION|^INCONCLUSIVE|^KNOWN" work/run_all.$$.out | head -5
  if [ "$TIER" = thorough ] && [ -f evidence/$id.json ]; then cp evidence/$id.json evidence-thorough/$id.json; fi
done
rm -f work/run_all.$$.out
