#!/bin/bash
# usage: tools/run_all.sh <quick|thorough> [ids...]  -- runs checks sequentially, prints one line per check
cd /verif
TIER="$1"; shift
IDS="${*:-C01 C02 C03 C04 C05 C06 C07 C08 C09 C10 C11 C12 C13 C14 C15 C16 C17 C18 C19 C20}"
for id in $IDS; do
  s=$(date +%s)
  out=$(./check $id $TIER 2>&1 | grep -v "^proptest: Abort"); rc=$?
  e=$(date +%s)
  echo "$id $TIER rc=$rc wall=$((e-s))s :: $(echo "$out" | grep -E "^C[0-9]+ (quick|thorough)|fuzz:" | tr '\n' ' ')"
  echo "$out" | grep -E "^VIOLATION|^INCONCLUSIVE|^KNOWN" | head -5
done
