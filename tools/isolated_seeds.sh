#!/bin/bash
# For `vp run --with-repo -- tools/isolated_seeds.sh [seeds...]`: every quick check on the unchanged tree under several
# VERIF_SEED values, from fresh processes, on snapshots of /verif and /repo (stability evidence, DESIGN.md §5).
set -u
cd "$(dirname "$0")/.." || exit 2
export VERIF_ROOT="$PWD" CARGO_TARGET_DIR="$PWD/work/target" CARGO_NET_OFFLINE=true
if [ -n "${VP_RUN_REPO:-}" ]; then
  sed -i "s#\"/repo/#\"$VP_RUN_REPO/#g" harness/Cargo.toml
  export VERIF_REPO="$VP_RUN_REPO"
fi
mkdir -p work evidence
SEEDS="${*:-1 2 3 4}"
bad=0; n=0
for seed in $SEEDS; do
  for id in C01 C02 C03 C04 C05 C06 C07 C08 C09 C10 C11 C12 C13 C14 C15 C16 C17 C18 C19 C20; do
    VERIF_SEED=$seed ./check $id quick > work/seeds.out 2>&1; rc=$?
    n=$((n+1))
    if [ $rc -ne 0 ] || grep -q "^VIOLATION" work/seeds.out; then
      bad=$((bad+1)); echo "NOT-SILENT seed=$seed $id rc=$rc"; grep -a -A2 "^VIOLATION\|^INCONCLUSIVE" work/seeds.out | head -12
    else
      echo "silent seed=$seed $id $(grep -a -E "^C[0-9]+ quick" work/seeds.out | tail -1 | cut -c1-110)"
    fi
  done
done
echo "runs=$n not_silent=$bad"
