#!/usr/bin/env python3
"""Regenerates the budgets table of DESIGN.md §7.2 (between the budgets-table markers) from evidence/*.json (quick tier)
and evidence-thorough/*.json (last thorough runs)."""
import json, os
root = os.path.dirname(os.path.dirname(os.path.abspath(__file__)))
rows = ["| property | quick evaluations | quick distinct non-trivial | quick wall | thorough evaluations (incl. fuzz executions) | thorough distinct non-trivial | thorough wall | of which libFuzzer executions |",
        "|---|---|---|---|---|---|---|---|"]
for i in range(1, 21):
    pid = "C%02d" % i
    q = json.load(open(os.path.join(root, "evidence", pid + ".json")))
    tp = os.path.join(root, "evidence-thorough", pid + ".json")
    t = json.load(open(tp)) if os.path.exists(tp) else None
    qc = q["coverage"]
    cells = [pid, f"{qc['evaluations']:,}", f"{qc['distinct_nontrivial']:,}", f"{q['wall_s']:.0f} s"]
    if t and t.get("tier") == "thorough":
        tc = t["coverage"]
        fz = (tc.get("fuzz") or {}).get("executions")
        cells += [f"{tc['evaluations']:,}", f"{tc['distinct_nontrivial']:,}", f"{t['wall_s']:.0f} s", str(fz) if fz else "-"]
    else:
        cells += ["-", "-", "-", "-"]
    rows.append("| " + " | ".join(cells) + " |")
p = os.path.join(root, "DESIGN.md")
s = open(p).read()
b, e = "<!-- budgets-table-begin -->\n", "<!-- budgets-table-end -->\n"
i, j = s.index(b) + len(b), s.index(e)
open(p, "w").write(s[:i] + "\n".join(rows) + "\n" + s[j:])
print(len(rows) - 2, "rows")
