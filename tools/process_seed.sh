#!/bin/bash
# usage: tools/process_seed.sh <ID> <suffix> [check ids...]   verify the sub-agent's seed, then run the quick check(s) against it
ID="$1"; SFX="$2"; shift 2
CHECKS="${*:-$ID}"
cd /verif
python3 -c "
import json
m=json.load(open('/tmp/seed-$ID$SFX/meta.json')); print('SUMMARY:', m['summary'][:700]); print('NEEDS:', m['needs_to_manifest'][:500]); print('FILES:', m['files_changed'])"
tools/verify_seed.sh $ID $SFX 2>&1 | grep -E "^RESULT|^demo command|does not"
tools/try_seed.sh /tmp/seed-$ID$SFX/patch.diff quick $CHECKS 2>&1 | cut -c1-600
