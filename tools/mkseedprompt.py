#!/usr/bin/env python3
"""Builds the prompt for a seeded-change sub-agent: tools/mkseedprompt.py <ID> <suffix>  -> /tmp/agent-<ID><suffix>.txt
The agent sees only the property text, its own worktree (/tmp/wt-<ID><suffix>) and one-paragraph summaries of the
changes earlier agents made for the same property (so that it picks a different site and mechanism)."""
import glob, json, os, sys
pid, sfx = sys.argv[1], sys.argv[2]
extra = sys.argv[3] if len(sys.argv) > 3 else ""
props = [json.loads(l) for l in open("/verif/properties.jsonl")]
p = next(x for x in props if x["id"] == pid)
tag = f"{pid}{sfx}"
text = f"{pid}: {p.get('title','')}\n\nStatement: {p.get('statement','')}\n\nQuantified over: {p.get('quantifier','')}\n"
prev = []
for d in sorted(glob.glob(f"/verif/seeded/{pid}-*")):
    m = json.load(open(os.path.join(d, "meta.json")))
    prev.append(f"  * previous change: {m.get('summary','')[:420]}\n    it needed: {m.get('needs_to_manifest','')[:260]}")
tmpl = open("/verif/tools/seed_prompt_template.txt").read()
out = tmpl.replace("@TAG@", tag).replace("@ID@", pid).replace("@PROPERTY@", text).replace("@PREVIOUS@", "\n".join(prev)).replace("@EXTRA@", extra)
open(f"/tmp/agent-{tag}.txt", "w").write(out)
print(f"/tmp/agent-{tag}.txt", len(out))
