#!/bin/bash
# Builds the verification framework offline from files on disk.
set -eu
cd "$(dirname "$0")"
export CARGO_NET_OFFLINE=true
mkdir -p work evidence
( cd harness && cargo build --release --offline && cargo build --profile nodebug --offline )
echo "setup ok"
