#!/usr/bin/env python3
"""C20  Every feature combination of the four crates builds.

Enumerates the feature power-set of each workspace crate (named features plus optional dependencies,
read from the crate's Cargo.toml in /repo's working tree) and runs, for every cell,

    cargo check --offline -p <crate> --no-default-features [--features a,b,...]                 (library alone)
    cargo check --offline -p <crate> --no-default-features [--features a,b,...] --all-targets   (examples, tests)

The compiler is the oracle.  A failing cell is shrunk (greedy feature removal while it still fails) and
the minimal set becomes the replay file.

usage: featmatrix.py C20 <quick|thorough> [--replay <file>]
exit 0 = every explored cell builds; 1 = VIOLATION; 2 = inconclusive (cargo could not run the cell)
"""
import hashlib
import json
import os
import random
import subprocess
import sys
import time
import tomllib
from concurrent.futures import ThreadPoolExecutor

REPO = os.environ.get("VERIF_REPO", "/repo")  # overridden only by tools/isolated_thorough.sh (background runs on a snapshot)
ROOT = os.path.dirname(os.path.abspath(__file__))
WORK = os.path.join(ROOT, "work")
CRATES = ["nexrad-model", "nexrad-decode", "nexrad", "nexrad-data"]
# ours, not the project's: the verification hook feature is not part of the property
EXCLUDED = {"default", "verif-hooks"}
WORKERS = 4


def crate_features(crate):
    manifest = tomllib.load(open(os.path.join(REPO, crate, "Cargo.toml"), "rb"))
    named = [f for f in manifest.get("features", {}) if f not in EXCLUDED]
    optional = [d for d, spec in manifest.get("dependencies", {}).items() if isinstance(spec, dict) and spec.get("optional")]
    feats = sorted(set(named) | set(optional))
    default = sorted(manifest.get("features", {}).get("default", []))
    return feats, default


BUILD_ALL_TARGETS = False  # set for the thorough tier: examples and tests are code-generated and linked too


def run_cell(crate, feats, target_dir):
    """A cell is checked twice: the library target alone (what a downstream consumer builds - with
    --all-targets the crate's own dev-dependencies are unified into the feature set and can mask a
    failure), and with --all-targets (examples, tests)."""
    # the library cell is a real `cargo build`: `cargo check` stops before code generation and never reports what only
    # shows there (deny-by-default lints of the known-panics pass such as arithmetic_overflow / unconditional_panic in
    # non-generic bodies, post-monomorphization and const-evaluation errors)
    import zlib
    # thorough: every eighth cell (by a hash of the cell) additionally builds and links its examples and tests
    deep = BUILD_ALL_TARGETS and zlib.crc32((crate + "|" + ",".join(feats)).encode()) % 8 == 0
    for sub, extra in (("build", []), ("check", ["--all-targets"])) + ((("build", ["--all-targets"]),) if deep else ()):
        cmd = ["cargo", sub, "--offline", "-q", "-p", crate, "--no-default-features"] + extra
        if feats:
            cmd += ["--features", ",".join(feats)]
        env = dict(os.environ, CARGO_NET_OFFLINE="true", CARGO_TARGET_DIR=target_dir, RUSTFLAGS=os.environ.get("RUSTFLAGS", ""))
        p = subprocess.run(cmd, cwd=REPO, env=env, capture_output=True, text=True)
        if p.returncode == 0:
            continue
        err = "$ " + " ".join(cmd) + "\n" + p.stderr
        if "could not compile" in err or "error[E" in err or "error: " in err and "-->" in err:
            return "fail", err
        return "infra", err
    return "ok", ""


def shrink(crate, feats, target_dir):
    cur = list(feats)
    changed = True
    while changed:
        changed = False
        for f in list(cur):
            trial = [x for x in cur if x != f]
            status, _ = run_cell(crate, trial, target_dir)
            if status == "fail":
                cur = trial
                changed = True
    return cur


def powerset(feats):
    n = len(feats)
    for mask in range(1 << n):
        yield [feats[i] for i in range(n) if mask >> i & 1]


def main():
    if len(sys.argv) < 3 or sys.argv[1].upper() != "C20":
        print(__doc__)
        return 2
    tier = sys.argv[2]
    global BUILD_ALL_TARGETS
    BUILD_ALL_TARGETS = tier == "thorough"
    seed = int(os.environ.get("VERIF_SEED", "0") or 0)
    os.makedirs(WORK, exist_ok=True)
    os.makedirs(os.path.join(ROOT, "evidence"), exist_ok=True)
    t0 = time.time()

    if "--replay" in sys.argv:
        path = sys.argv[sys.argv.index("--replay") + 1]
        doc = json.load(open(path))
        case = doc.get("case", doc)
        status, err = run_cell(case["crate"], case["features"], os.path.join(WORK, "featmatrix-target-0"))
        if status == "ok":
            print(f"replay of {path}: cell builds")
            return 0
        if status == "infra":
            print("INCONCLUSIVE cargo could not run the cell:\n" + err[-1500:])
            return 2
        print(f"VIOLATION property=C20 replay={path}")
        print("  " + "\n  ".join(err.strip().splitlines()[:25]))
        return 1

    cells = []  # (crate, features)
    classes = {}
    space = {}
    rng = random.Random(seed)
    for crate in CRATES:
        feats, default = crate_features(crate)
        space[crate] = {"features": feats, "default": default, "cells_in_powerset": 1 << len(feats)}
        all_cells = list(powerset(feats))
        if tier == "thorough" or len(feats) <= 4:
            chosen = all_cells
        else:
            chosen = [[], list(feats), [f for f in default if f in feats]]
            chosen += [[f] for f in feats]
            chosen += [[g for g in feats if g != f] for f in feats]
            chosen += rng.sample(all_cells, min(150, len(all_cells)))
            uniq = []
            for c in chosen:
                c = sorted(c)
                if c not in uniq:
                    uniq.append(c)
            chosen = uniq
        for c in chosen:
            cells.append((crate, sorted(c)))
        classes[crate] = len(chosen)

    # cross-crate cells: a consumer may enable features of a dependency crate next to a dependent crate (cargo unifies
    # them), e.g. nexrad-model/chrono together with nexrad-decode's nexrad-model feature.  A cell's feature list may
    # therefore contain dep/feature entries.
    def subsets(items):
        return [[items[i] for i in range(len(items)) if m >> i & 1] for m in range(1 << len(items))]
    model_feats = crate_features("nexrad-model")[0]
    decode_feats = crate_features("nexrad-decode")[0]
    model_subsets = [x for x in subsets(model_feats) if x]
    cross = []
    decode_own = [f for f in subsets(decode_feats) if "nexrad-model" in f]
    for own in decode_own:
        for ms in model_subsets:
            cross.append(("nexrad-decode", sorted(own + ["nexrad-model/" + f for f in ms])))
    data_feats, data_default = crate_features("nexrad-data")
    data_own = [sorted(f for f in data_default if f in data_feats), sorted(data_feats)]
    if tier == "thorough":
        pool = [x for x in powerset(data_feats) if "nexrad-model" in x or "nexrad-decode" in x or "decode" in x]
        data_own += [sorted(x) for x in rng.sample(pool, min(24, len(pool)))]
    for own in data_own:
        picks = model_subsets if tier == "thorough" else [[f] for f in model_feats] + [list(model_feats)]
        for ms in picks:
            cross.append(("nexrad-data", sorted(own + ["nexrad-model/" + f for f in ms])))
        if "nexrad-decode" in own or "decode" in own:
            for ds in [x for x in subsets(decode_feats) if x]:
                cross.append(("nexrad-data", sorted(own + ["nexrad-decode/" + f for f in ds])))
    facade_feats = crate_features("nexrad")[0]
    for own in ([sorted(facade_feats)] if tier != "thorough" else [x for x in subsets(facade_feats) if "nexrad-model" in x]):
        for ms in ([[f] for f in model_feats] + [list(model_feats)] if tier != "thorough" else model_subsets):
            cross.append(("nexrad", sorted(own + ["nexrad-model/" + f for f in ms])))
    seen_cells = {(c, tuple(f)) for c, f in cells}
    n_cross = 0
    for c, f in cross:
        if (c, tuple(f)) not in seen_cells:
            seen_cells.add((c, tuple(f)))
            cells.append((c, f))
            n_cross += 1
    classes["cross-crate (dep/feature) cells"] = n_cross

    # distribute: each worker owns a target dir; cells of one crate stay together to share dependency builds
    buckets = [[] for _ in range(WORKERS)]
    for i, cell in enumerate(sorted(cells, key=lambda c: (c[0], len(c[1])))):
        buckets[i % WORKERS].append(cell)

    results = []

    def work(w):
        target = os.path.join(WORK, f"featmatrix-target-{w}")
        out = []
        for crate, feats in buckets[w]:
            status, err = run_cell(crate, feats, target)
            out.append((crate, feats, status, err))
        return out

    with ThreadPoolExecutor(max_workers=WORKERS) as ex:
        for out in ex.map(work, range(WORKERS)):
            results.extend(out)

    failures = [(c, f, e) for c, f, s, e in results if s == "fail"]
    infra = [(c, f, e) for c, f, s, e in results if s == "infra"]
    violations = []
    seen_minimal = []
    for crate, feats, err in failures[:8]:
        minimal = shrink(crate, feats, os.path.join(WORK, "featmatrix-target-0"))
        if (crate, minimal) in seen_minimal:
            continue
        seen_minimal.append((crate, minimal))
        _, err2 = run_cell(crate, minimal, os.path.join(WORK, "featmatrix-target-0"))
        doc = {"property": "C20", "sub": "feature-cell", "sig": "does-not-build", "detail": (err2 or err)[-3000:], "case": {"crate": crate, "features": minimal}}
        text = json.dumps(doc, indent=1)
        os.makedirs(os.path.join(WORK, "replay"), exist_ok=True)
        path = os.path.join(WORK, "replay", "C20-" + hashlib.sha1(text.encode()).hexdigest()[:16] + ".json")
        open(path, "w").write(text)
        violations.append((crate, minimal, path, err2 or err))

    def nontrivial(crate, feats):
        _, default = crate_features(crate)
        return bool(feats) and sorted(feats) != sorted(default)

    distinct_nontrivial = len({(c, tuple(f)) for c, f, s, e in results if nontrivial(c, f)})
    exhaustive = tier == "thorough" and not infra
    evidence = {
        "property_id": "C20",
        "tier": tier,
        "seed": seed,
        "level": "exploration",
        "coverage": {
            "evaluations": len(results),
            "distinct_nontrivial": distinct_nontrivial,
            "rule": "cells of the feature power-set (named features + optional dependencies read from each crate's Cargo.toml, verif-hooks excluded), plus cross-crate cells in which features of a dependency crate are enabled next to the dependent crate's own (nexrad-decode with nexrad-model x every non-empty nexrad-model feature set; nexrad-data default/all - thorough: 24 more sampled sets - x nexrad-model and nexrad-decode feature sets; the facade x nexrad-model feature sets); thorough = every cell of every crate, quick = every cell of crates with <= 4 features and, for nexrad-data, {none, all, default, each single, each all-but-one} plus 150 seeded random cells; each cell = `cargo build --offline -p <crate> --no-default-features --features <set>` for the library alone (code generation included: cargo check never reports known-panics lints, post-monomorphization and const-evaluation errors) and `cargo check ... --all-targets` for examples and tests (thorough: `cargo build --all-targets` as well for every eighth cell); non-trivial = a cell that differs from both the empty and the default set",
            "samples": [{"crate": c, "features": f, "result": s} for c, f, s, e in results[:3]] + [{"crate": c, "features": f, "result": s} for c, f, s, e in results[-2:]],
            "exhaustive": exhaustive,
            "feature_space": space,
            "cells_per_crate": classes,
            "failing_cells": len(failures),
            "inconclusive_cells": len(infra),
            "trusted_base": ["rustc/cargo as the oracle (exit status of cargo build / cargo check)"],
        },
        "assumptions": ["warnings are not failures", "examples whose required-features are not enabled are skipped by cargo itself", "the verif-hooks feature is ours and is not part of the matrix"],
        "wall_s": round(time.time() - t0, 3),
        "violations": len(violations),
    }
    json.dump(evidence, open(os.path.join(ROOT, "evidence", "C20.json"), "w"), indent=1)

    for crate, minimal, path, err in violations:
        print(f"VIOLATION property=C20 replay={path}")
        print(f"  crate {crate} does not build with --no-default-features --features {','.join(minimal) or '<none>'}")
        for line in err.strip().splitlines()[:12]:
            print("    " + line)
    print(f"C20 {tier} seed={seed} evaluations={len(results)} distinct_nontrivial={distinct_nontrivial} violations={len(violations)} wall={time.time() - t0:.1f}s")
    if violations:
        return 1
    if infra:
        c, f, e = infra[0]
        print(f"INCONCLUSIVE property=C20 cargo could not run {len(infra)} cell(s), e.g. {c} [{','.join(f)}]:")
        print("  " + "\n  ".join(e.strip().splitlines()[-8:]))
        return 2
    return 0


if __name__ == "__main__":
    sys.exit(main())
