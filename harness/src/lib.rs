#![allow(dead_code)]
//! nexrad-verif library: runner, independent wire encoder, generators, reference models, S3 simulator
//! and one module per property (C01..C19).  Used by the `nexrad-verif` binary and by the fuzz targets.

pub mod alloc;
pub mod findings;
pub mod gen;
pub mod hang;
pub mod journal;
pub mod logsink;
pub mod model;
pub mod props;
pub mod runner;
pub mod s3sim;
pub mod ufuzz;
pub mod wire;
