//! Structured decoding of libFuzzer bytes into the wire specs (`arbitrary::Unstructured`), so that the
//! coverage-guided fuzzer explores the *semantic* oracles of C01 / C02 / C03 / C14 and not only totality.
//! (`derive_arbitrary` is not available offline, and proptest's pass-through RNG splits its input at every
//! `prop_flat_map`, so the decoders are written by hand.)  When the bytes run out every draw yields zero,
//! which still decodes to a valid (small) case.

use crate::props::{c01, c02, c03, c14};
use crate::wire::*;
use arbitrary::Unstructured;

pub struct U<'a>(pub Unstructured<'a>);

impl<'a> U<'a> {
    pub fn new(data: &'a [u8]) -> Self {
        U(Unstructured::new(data))
    }
    pub fn u8(&mut self) -> u8 {
        self.0.arbitrary().unwrap_or(0)
    }
    pub fn u16(&mut self) -> u16 {
        self.0.arbitrary().unwrap_or(0)
    }
    pub fn u32(&mut self) -> u32 {
        self.0.arbitrary().unwrap_or(0)
    }
    pub fn bool(&mut self) -> bool {
        self.u8() & 1 == 1
    }
    /// inclusive range
    pub fn range(&mut self, lo: usize, hi: usize) -> usize {
        self.0.int_in_range(lo..=hi).unwrap_or(lo)
    }
    pub fn bytes(&mut self, n: usize) -> Vec<u8> {
        (0..n).map(|_| self.u8()).collect()
    }
    pub fn arr<const N: usize>(&mut self) -> [u8; N] {
        let mut a = [0u8; N];
        for b in a.iter_mut() {
            *b = self.u8();
        }
        a
    }
    pub fn finite(&mut self) -> u32 {
        crate::gen::finite_bits(self.u32())
    }
}

#[derive(Clone, Copy, PartialEq)]
pub enum Stamp {
    Valid,
    Zero,
    Any,
}

pub fn msg_header(u: &mut U, mtype: u8, stamp: Stamp) -> MsgHeaderSpec {
    let mut rpg: [u8; 12] = u.arr();
    // same input precondition as gen::msg_header: "BZ" at bytes 4..6 would mark the record as compressed
    if rpg[4] == b'B' && rpg[5] == b'Z' {
        rpg[5] = b'z';
    }
    let (date, time) = match stamp {
        Stamp::Valid => ((u.u16()).max(1), u.u32() % 86_400_000),
        Stamp::Zero => (0, 0),
        Stamp::Any => (u.u16(), u.u32()),
    };
    MsgHeaderSpec {
        rpg,
        size: u.u16(),
        channel: [0u8, 1, 2, 8, 9, 10][u.range(0, 5)],
        mtype,
        seq: u.u16(),
        date,
        time,
        seg_count: u.u16(),
        seg_num: u.u16(),
    }
}

pub fn moment(u: &mut U, max_gates: usize, allow_big: bool) -> MomentSpec {
    let word_size = if u.range(0, 3) == 0 { 16 } else { 8 };
    // big: any 16-bit gate count ("beyond 1840"), gate bytes from a cheap seeded pattern
    let big = allow_big && u.range(0, 7) == 0;
    let gates = if big { u.u16() } else { u.range(0, max_gates) as u16 };
    let n = gates as usize * (word_size as usize / 8);
    let data = if big {
        let mut x = (u.u32() as u64) << 1 | 1;
        (0..n)
            .map(|_| {
                x ^= x << 13;
                x ^= x >> 7;
                x ^= x << 17;
                (x >> 24) as u8
            })
            .collect()
    } else {
        u.bytes(n)
    };
    MomentSpec {
        id_type: u.u8(),
        reserved: u.u32(),
        gates,
        range: u.u16(),
        interval: u.u16(),
        tover: u.u16(),
        snr: u.u16(),
        ctrl: u.u8() % 4,
        word_size,
        scale_bits: u.finite(),
        offset_bits: u.finite(),
        data,
    }
}

/// A type-31 body with a contiguous layout (pointer order = physical order, a permutation of the present blocks).
pub fn drd(u: &mut U, known_vcp: bool, valid_datetime: bool) -> DrdSpec {
    drd_with(u, known_vcp, valid_datetime, false)
}

pub fn drd_with(u: &mut U, known_vcp: bool, valid_datetime: bool, big_gates: bool) -> DrdSpec {
    let mask = u.u16() & 0x3FF;
    let header = DrdHeaderSpec {
        radar_id: u.arr(),
        time: if valid_datetime { u.u32() % 86_400_000 } else { u.u32() },
        date: if valid_datetime { u.u16().max(1) } else { u.u16() },
        az_num: u.u16(),
        az_angle_bits: u.finite(),
        compression: u.u8(),
        spare: u.u8(),
        radial_length: u.u16(),
        az_spacing: u.u8(),
        status: u.u8(),
        elev_num: u.u8(),
        cut_sector: u.u8(),
        elev_angle_bits: u.finite(),
        spot: u.u8(),
        az_index: u.u8(),
    };
    let vol = (mask & 1 != 0).then(|| VolSpec {
        id_type: u.u8(),
        lrtup: u.u16(),
        major: u.u8(),
        minor: u.u8(),
        lat_bits: u.finite(),
        lon_bits: u.finite(),
        site_height: u.u16() as i16,
        feedhorn: u.u16(),
        calib_bits: u.finite(),
        htx_bits: u.finite(),
        vtx_bits: u.finite(),
        zdr_bits: u.finite(),
        phi_bits: u.finite(),
        vcp: if known_vcp { crate::gen::KNOWN_VCPS[u.range(0, 5)] } else { u.u16() },
        processing: u.u16(),
        zdr_bias: u.u16(),
        spare: u.arr(),
    });
    let elv = (mask & 2 != 0).then(|| ElvSpec { id_type: u.u8(), lrtup: u.u16(), atmos: u.u16() as i16, calib_bits: u.finite() });
    let rad = (mask & 4 != 0).then(|| RadSpec {
        id_type: u.u8(),
        lrtup: u.u16(),
        unamb_range: u.u16(),
        hnoise_bits: u.finite(),
        vnoise_bits: u.finite(),
        nyquist: u.u16(),
        flags: u.u16(),
        hcal_bits: u.finite(),
        vcal_bits: u.finite(),
    });
    let mut moments: [Option<MomentSpec>; 7] = Default::default();
    for (i, m) in moments.iter_mut().enumerate() {
        if mask & (8 << i) != 0 {
            *m = Some(moment(u, 24, big_gates));
        }
    }
    let mut spec = DrdSpec { header, vol, elv, rad, moments, pointer_order: vec![], physical_order: vec![], gaps: vec![] };
    let mut order = spec.present();
    // Fisher-Yates driven by the input
    for i in (1..order.len()).rev() {
        let j = u.range(0, i);
        order.swap(i, j);
    }
    spec.gaps = vec![Vec::new(); order.len()];
    spec.pointer_order = order.clone();
    spec.physical_order = order;
    spec
}

pub fn cut(u: &mut U) -> CutSpec {
    CutSpec {
        elevation_angle: u.u16(),
        channel: u.u8(),
        waveform: u.u8(),
        super_res: u.u8(),
        surv_prf: u.u8(),
        surv_count: u.u16(),
        azimuth_rate: u.u16(),
        ref_thr: u.u16() as i16,
        vel_thr: u.u16() as i16,
        sw_thr: u.u16() as i16,
        zdr_thr: u.u16() as i16,
        phi_thr: u.u16() as i16,
        rho_thr: u.u16() as i16,
        s1_edge: u.u16(),
        s1_prf: u.u16(),
        s1_count: u.u16(),
        supplemental: u.u16(),
        s2_edge: u.u16(),
        s2_prf: u.u16(),
        s2_count: u.u16(),
        ebc: u.u16(),
        s3_edge: u.u16(),
        s3_prf: u.u16(),
        s3_count: u.u16(),
        reserved: u.u16(),
    }
}

pub fn vcp(u: &mut U) -> VcpSpec {
    let k = u.range(0, 51);
    VcpSpec {
        header: VcpHeaderSpec {
            message_size: u.u16(),
            pattern_type: u.u16(),
            pattern_number: u.u16(),
            declared_cuts: k as u16,
            version: u.u8(),
            clutter_group: u.u8(),
            doppler_res: u.u8(),
            pulse_width: u.u8(),
            reserved1: u.u32(),
            sequencing: u.u16(),
            supplemental: u.u16(),
            reserved2: u.u16(),
        },
        cuts: (0..k).map(|_| cut(u)).collect(),
    }
}

pub fn rda_any(u: &mut U) -> RdaSpec {
    RdaSpec { hw: (0..60).map(|_| u.u16()).collect() }
}

/// Status message with coded fields inside their documented domains (C14's precondition).
pub fn rda_in_domain(u: &mut U) -> RdaSpec {
    let mut r = rda_any(u);
    r.hw[0] = [2u16, 4, 8, 16][u.range(0, 3)];
    r.hw[1] = [2u16, 4, 8, 16, 32][u.range(0, 4)];
    r.hw[2] = [2u16, 4, 8][u.range(0, 2)];
    r.hw[3] = [1u16, 2, 4, 8, 16][u.range(0, 4)];
    if r.hw[7] as i16 == i16::MIN {
        r.hw[7] = 0;
    }
    r.hw[8] = [0u16, 2, 4][u.range(0, 2)];
    r.hw[10] = [4u16, 8][u.range(0, 1)];
    r.hw[11] = [2u16, 4][u.range(0, 1)];
    r.hw[13] = (r.hw[13] & 0xFFF8) | [0b010u16, 0b100][u.range(0, 1)];
    r.hw[17] = [0u16, 4][u.range(0, 1)];
    r.hw[23] = [0u16, 1, 3, 4][u.range(0, 3)];
    r.hw[24] = [0u16, 2, 4][u.range(0, 2)];
    r.hw[25] = [0u16, 1, 2][u.range(0, 2)];
    r
}

pub fn msg(u: &mut U) -> MsgSpec {
    let mtype = match u.range(0, 7) {
        0 | 1 | 2 => 31u8,
        3 => 2,
        4 => 5,
        5 => 15,
        _ => u.u8(),
    };
    let header = msg_header(u, mtype, Stamp::Any);
    let filler = {
        let n = u.range(0, 6);
        u.bytes(n)
    };
    let body = match mtype {
        31 => BodySpec::Drd(Box::new(drd(u, false, false))),
        2 => BodySpec::Rda(rda_any(u), filler),
        5 => BodySpec::Vcp(vcp(u), filler),
        _ => BodySpec::Opaque(filler),
    };
    MsgSpec { header, body }
}

pub fn stream_case(u: &mut U) -> c03::StreamCase {
    let n = u.range(0, 5);
    let msgs = (0..n).map(|_| msg(u)).collect();
    let k = u.range(0, 8);
    let cut_selectors = (0..k).map(|_| u.u16()).collect();
    let t = u.range(0, 27);
    c03::StreamCase { msgs, cut_selectors, trailing: u.bytes(t) }
}

pub fn fidelity_case(u: &mut U) -> c02::Case {
    // non-contiguous layouts too: shuffle the physical order independently and add gaps
    let mut d = drd_with(u, false, false, true);
    for m in d.moments.iter_mut().flatten() {
        // floats need not be finite for C02 (compared by bit pattern)
        m.scale_bits = u.u32();
    }
    let mut phys = d.present();
    for i in (1..phys.len()).rev() {
        let j = u.range(0, i);
        phys.swap(i, j);
    }
    d.gaps = (0..phys.len())
        .map(|_| {
            let n = u.range(0, 5);
            u.bytes(n)
        })
        .collect();
    d.physical_order = phys;
    let header = msg_header(u, 31, Stamp::Any);
    let n = u.range(0, 12);
    c02::Case { drd: d, header, lead: u.bytes(n) }
}

pub fn volume_case(u: &mut U) -> c01::VolumeCase {
    let header = VolHeaderSpec { tape: *b"AR2V0006.", ext: [b'0' + u.u8() % 10, b'0' + u.u8() % 10, b'1' + u.u8() % 9], date: u.u16().max(1) as u32, time: u.u32() % 86_400_000, icao: u.arr() };
    let n_runs = u.range(1, 5);
    let runs = (0..n_runs)
        .map(|_| {
            let elevation = u.u8() % 6;
            let count = u.range(1, 4) as u16;
            let nt = u.range(1, 2);
            c01::RunSpec { elevation, count, templates: (0..nt).map(|_| drd(u, false, true)).collect() }
        })
        .collect();
    let n_meta = u.range(0, 3);
    let metadata = (0..n_meta)
        .map(|_| {
            let p = u.u16();
            let mut m = msg(u);
            if m.header.mtype == 31 {
                m.header.mtype = 2;
                m.body = BodySpec::Rda(rda_any(u), vec![]);
            }
            (p, m)
        })
        .collect();
    let n_splits = u.range(0, 3);
    let splits = (0..n_splits).map(|_| u.u16()).collect();
    c01::VolumeCase { header, runs, metadata, splits, msg_header: msg_header(u, 31, Stamp::Valid) }
}

pub fn list_case(u: &mut U) -> c14::ListCase {
    let n = u.range(0, 7);
    let mut items = Vec::new();
    for _ in 0..n {
        let item = match u.range(0, 5) {
            0 | 1 | 2 => c14::Item::Radials { elevation: if u.bool() { 1 + u.u8() % 4 } else { u.u8() }, count: u.range(1, 4) as u16, template: drd(u, true, false), timestamped: u.range(0, 4) != 0 },
            3 => {
                let stamp = if u.range(0, 3) == 0 { Stamp::Zero } else { Stamp::Valid };
                c14::Item::Status { rda: rda_in_domain(u), header: msg_header(u, 2, stamp) }
            }
            4 => c14::Item::Vcp { vcp: vcp(u), header: msg_header(u, 5, Stamp::Any) },
            _ => {
                let mut t = u.u8();
                if [2u8, 5, 31].contains(&t) {
                    t = 3;
                }
                c14::Item::Other { header: msg_header(u, t, Stamp::Any), count: u.range(1, 3) as u8 }
            }
        };
        items.push(item);
    }
    c14::ListCase { items, base_header: msg_header(u, 31, Stamp::Valid) }
}

/// Runs the structured target `name` on fuzzer bytes. Ok(case json) / Err((fail, case json)).
pub fn run_target(name: &str, data: &[u8]) -> Result<(), (crate::runner::Fail, serde_json::Value, &'static str, &'static str)> {
    let mut u = U::new(data);
    match name {
        "stream_framing" => {
            let c = stream_case(&mut u);
            c03::check_stream(&c).map_err(|f| (f, serde_json::to_value(&c).unwrap_or_default(), "C03", "streams"))
        }
        "type31_fidelity" => {
            let c = fidelity_case(&mut u);
            c02::check_case(&c).map_err(|f| (f, serde_json::to_value(&c).unwrap_or_default(), "C02", "random-messages"))
        }
        "volume_scan" => {
            let c = volume_case(&mut u);
            c01::check_volume(&c).map_err(|f| (f, serde_json::to_value(&c).unwrap_or_default(), "C01", "volumes"))
        }
        "summary_model" => {
            let c = list_case(&mut u);
            c14::check_list(&c).map_err(|f| (f, serde_json::to_value(&c).unwrap_or_default(), "C14", "lists"))
        }
        _ => Ok(()),
    }
}

pub fn sub_for(target: &str) -> &'static str {
    match target {
        "stream_framing" => "streams",
        "type31_fidelity" => "random-messages",
        "volume_scan" => "volumes",
        _ => "lists",
    }
}

pub fn case_json(target: &str, data: &[u8]) -> serde_json::Value {
    let mut u = U::new(data);
    match target {
        "stream_framing" => serde_json::to_value(stream_case(&mut u)),
        "type31_fidelity" => serde_json::to_value(fidelity_case(&mut u)),
        "volume_scan" => serde_json::to_value(volume_case(&mut u)),
        _ => serde_json::to_value(list_case(&mut u)),
    }
    .unwrap_or_default()
}

/// (non-trivial by the property's own rule, short description) of the case the bytes decode to.
pub fn describe(target: &str, data: &[u8]) -> (bool, serde_json::Value) {
    use serde_json::json;
    let mut u = U::new(data);
    match target {
        "stream_framing" => {
            let c = stream_case(&mut u);
            (c03::classify(&c).nontrivial, json!({"messages": c.msgs.iter().map(|m| m.kind()).collect::<Vec<_>>(), "trailing": c.trailing.len()}))
        }
        "type31_fidelity" => {
            let c = fidelity_case(&mut u);
            (c02::classify(&c).nontrivial, json!({"pointer_order": c.drd.pointer_order, "physical_order": c.drd.physical_order, "gaps": c.drd.gaps.iter().map(|g| g.len()).collect::<Vec<_>>()}))
        }
        "volume_scan" => {
            let c = volume_case(&mut u);
            (c01::classify(&c).nontrivial, json!({"runs": c.runs.iter().map(|r| (r.elevation, r.count)).collect::<Vec<_>>(), "metadata": c.metadata.len(), "splits": c.splits.len()}))
        }
        _ => {
            let c = list_case(&mut u);
            (c14::classify(&c).nontrivial, json!({"items": c.items.len()}))
        }
    }
}

pub fn target_for(id: &str) -> Option<&'static str> {
    match id {
        "C01" => Some("volume_scan"),
        "C02" => Some("type31_fidelity"),
        "C03" => Some("stream_framing"),
        "C14" => Some("summary_model"),
        _ => None,
    }
}
