//! Loopback HTTP/1.1 S3 simulator.
//!
//! One listener per process; "worlds" (bucket contents + fault script) are registered under a site
//! identifier and every request is routed to the world whose site occurs in the request target, so
//! that many scenarios can run concurrently against one endpoint.  Each world records the requests
//! it received (second observation channel) and may gate a response until the harness releases it.

use std::collections::HashMap;
use std::io::{Read, Write};
use std::net::{TcpListener, TcpStream};
use std::sync::{Arc, Condvar, Mutex, OnceLock};
use std::time::Duration;

#[derive(Clone, Debug)]
pub struct Request {
    pub method: String,
    /// raw request target as received
    pub target: String,
    /// percent-decoded path, e.g. "/noaa-nexrad-level2/2024/08/04/KDMX/name"
    pub path: String,
    /// percent-decoded query pairs in order
    pub query: Vec<(String, String)>,
}

impl Request {
    pub fn query_value(&self, key: &str) -> Option<&str> {
        self.query.iter().find(|(k, _)| k == key).map(|(_, v)| v.as_str())
    }
    pub fn bucket(&self) -> &str {
        self.path.trim_start_matches('/').split('/').next().unwrap_or("")
    }
    /// object key (path after the bucket), empty for bucket-level requests
    pub fn key(&self) -> &str {
        let p = self.path.trim_start_matches('/');
        match p.find('/') {
            Some(i) => &p[i + 1..],
            None => "",
        }
    }
    pub fn is_list(&self) -> bool {
        self.key().is_empty()
    }
}

#[derive(Default)]
pub struct Gate {
    open: Mutex<bool>,
    cv: Condvar,
}

impl Gate {
    pub fn new() -> Arc<Gate> {
        Arc::new(Gate::default())
    }
    pub fn open(&self) {
        *self.open.lock().unwrap_or_else(|e| e.into_inner()) = true;
        self.cv.notify_all();
    }
    /// Waits until opened (bounded: a forgotten gate must not hang the server thread forever).
    pub fn wait(&self) {
        let mut g = self.open.lock().unwrap_or_else(|e| e.into_inner());
        let mut waited = 0;
        while !*g && waited < 600 {
            let (ng, _) = self.cv.wait_timeout(g, Duration::from_millis(100)).unwrap_or_else(|e| e.into_inner());
            g = ng;
            waited += 1;
        }
    }
}

pub struct Response {
    pub status: u16,
    pub headers: Vec<(String, String)>,
    pub body: Vec<u8>,
    /// declare this Content-Length instead of body.len() (to simulate a truncated transfer)
    pub declared_length: Option<usize>,
    /// hold the response until the gate opens
    pub gate: Option<Arc<Gate>>,
    /// notify this gate when the request has been received (before waiting on `gate`)
    pub arrived: Option<Arc<Gate>>,
    /// deliver the body with Transfer-Encoding: chunked (no Content-Length) in pieces of varying size
    pub chunked: bool,
    /// send header names in lower case
    pub lowercase_headers: bool,
}

impl Response {
    pub fn new(status: u16, body: Vec<u8>) -> Self {
        Response { status, headers: Vec::new(), body, declared_length: None, gate: None, arrived: None, chunked: false, lowercase_headers: false }
    }
    pub fn xml(body: String) -> Self {
        let mut r = Response::new(200, body.into_bytes());
        r.headers.push(("Content-Type".into(), "application/xml".into()));
        r
    }
    pub fn header(mut self, k: &str, v: &str) -> Self {
        self.headers.push((k.to_string(), v.to_string()));
        self
    }
}

pub trait World: Send {
    fn handle(&mut self, req: &Request) -> Response;
}

type WorldRef = Arc<Mutex<dyn World>>;

pub struct Server {
    pub port: u16,
    worlds: Mutex<HashMap<String, WorldRef>>,
}

static SERVER: OnceLock<Arc<Server>> = OnceLock::new();

/// Starts the process-wide simulator (idempotent) and points the code under test at it.
/// Must be called before any worker thread issues a request.
pub fn global() -> Arc<Server> {
    SERVER
        .get_or_init(|| {
            let listener = TcpListener::bind("127.0.0.1:0").expect("bind loopback");
            let port = listener.local_addr().expect("addr").port();
            let server = Arc::new(Server { port, worlds: Mutex::new(HashMap::new()) });
            std::env::set_var("NEXRAD_VERIF_S3_ENDPOINT", format!("http://127.0.0.1:{}", port));
            // reqwest honours proxy variables; a loopback simulator must never be proxied
            for v in ["http_proxy", "HTTP_PROXY", "https_proxy", "HTTPS_PROXY", "all_proxy", "ALL_PROXY"] {
                std::env::remove_var(v);
            }
            std::env::set_var("NO_PROXY", "127.0.0.1,localhost");
            let s2 = server.clone();
            std::thread::Builder::new()
                .name("s3sim-accept".into())
                .spawn(move || {
                    for stream in listener.incoming() {
                        let stream = match stream {
                            Ok(s) => s,
                            Err(_) => continue,
                        };
                        let s3 = s2.clone();
                        let _ = std::thread::Builder::new().name("s3sim-conn".into()).stack_size(256 << 10).spawn(move || {
                            let _ = s3.serve(stream);
                        });
                    }
                })
                .expect("spawn accept thread");
            server
        })
        .clone()
}

fn percent_decode(s: &str, plus_is_space: bool) -> String {
    let b = s.as_bytes();
    let mut out = Vec::with_capacity(b.len());
    let mut i = 0;
    while i < b.len() {
        if b[i] == b'%' && i + 3 <= b.len() {
            let hex = std::str::from_utf8(&b[i + 1..i + 3]).ok().and_then(|h| u8::from_str_radix(h, 16).ok());
            if let Some(v) = hex {
                out.push(v);
                i += 3;
                continue;
            }
        }
        if plus_is_space && b[i] == b'+' {
            out.push(b' ');
        } else {
            out.push(b[i]);
        }
        i += 1;
    }
    String::from_utf8_lossy(&out).to_string()
}

impl Server {
    pub fn register(&self, site: &str, world: WorldRef) {
        self.worlds.lock().unwrap_or_else(|e| e.into_inner()).insert(site.to_string(), world);
    }
    pub fn unregister(&self, site: &str) {
        self.worlds.lock().unwrap_or_else(|e| e.into_inner()).remove(site);
    }

    fn route(&self, req: &Request) -> Option<WorldRef> {
        let worlds = self.worlds.lock().unwrap_or_else(|e| e.into_inner());
        let hay = format!("{} {}", req.path, req.query.iter().map(|(k, v)| format!("{}={}", k, v)).collect::<Vec<_>>().join("&"));
        worlds.iter().find(|(site, _)| hay.contains(site.as_str())).map(|(_, w)| w.clone())
    }

    fn serve(&self, mut stream: TcpStream) -> std::io::Result<()> {
        stream.set_read_timeout(Some(Duration::from_secs(30)))?;
        stream.set_nodelay(true)?;
        let mut buf = Vec::new();
        let mut tmp = [0u8; 2048];
        loop {
            let n = stream.read(&mut tmp)?;
            if n == 0 {
                break;
            }
            buf.extend_from_slice(&tmp[..n]);
            if buf.windows(4).any(|w| w == b"\r\n\r\n") || buf.len() > 65_536 {
                break;
            }
        }
        let head = String::from_utf8_lossy(&buf).to_string();
        let line = head.lines().next().unwrap_or("");
        let mut parts = line.split(' ');
        let method = parts.next().unwrap_or("").to_string();
        let target = parts.next().unwrap_or("").to_string();
        let (raw_path, raw_query) = match target.find('?') {
            Some(i) => (&target[..i], &target[i + 1..]),
            None => (&target[..], ""),
        };
        let query = raw_query
            .split('&')
            .filter(|s| !s.is_empty())
            .map(|kv| match kv.find('=') {
                Some(i) => (percent_decode(&kv[..i], true), percent_decode(&kv[i + 1..], true)),
                None => (percent_decode(kv, true), String::new()),
            })
            .collect();
        let req = Request { method, target: target.clone(), path: percent_decode(raw_path, false), query };
        let resp = match self.route(&req) {
            Some(w) => w.lock().unwrap_or_else(|e| e.into_inner()).handle(&req),
            None => Response::new(404, b"<Error><Code>NoSuchBucketOrSite</Code></Error>".to_vec()),
        };
        if let Some(a) = &resp.arrived {
            a.open();
        }
        if let Some(g) = &resp.gate {
            g.wait();
        }
        let reason = match resp.status {
            200 => "OK",
            403 => "Forbidden",
            404 => "Not Found",
            500 => "Internal Server Error",
            503 => "Service Unavailable",
            _ => "Status",
        };
        let name = |n: &str| if resp.lowercase_headers { n.to_ascii_lowercase() } else { n.to_string() };
        let mut out = format!("HTTP/1.1 {} {}\r\n{}: close\r\n", resp.status, reason, name("Connection"));
        let chunked = resp.chunked && resp.declared_length.is_none() && resp.status != 204;
        if chunked {
            out.push_str(&format!("{}: chunked\r\n", name("Transfer-Encoding")));
        } else {
            out.push_str(&format!("{}: {}\r\n", name("Content-Length"), resp.declared_length.unwrap_or(resp.body.len())));
        }
        for (k, v) in &resp.headers {
            out.push_str(&format!("{}: {}\r\n", name(k), v));
        }
        out.push_str("\r\n");
        stream.write_all(out.as_bytes())?;
        if chunked {
            // pieces of varying size derived from the body length (deterministic)
            let mut x = (resp.body.len() as u64).wrapping_mul(0x9E37_79B9_7F4A_7C15) | 1;
            let mut pos = 0usize;
            while pos < resp.body.len() {
                x ^= x << 13;
                x ^= x >> 7;
                x ^= x << 17;
                let n = (1 + (x % 4096) as usize).min(resp.body.len() - pos);
                stream.write_all(format!("{:x}\r\n", n).as_bytes())?;
                stream.write_all(&resp.body[pos..pos + n])?;
                stream.write_all(b"\r\n")?;
                pos += n;
            }
            stream.write_all(b"0\r\n\r\n")?;
        } else {
            stream.write_all(&resp.body)?;
        }
        stream.flush()?;
        // let the client close first where possible, so that TIME_WAIT lands on its side of the pair
        let _ = stream.shutdown(std::net::Shutdown::Write);
        let _ = stream.set_read_timeout(Some(Duration::from_millis(2000)));
        let mut sink = [0u8; 256];
        while let Ok(n) = stream.read(&mut sink) {
            if n == 0 {
                break;
            }
        }
        Ok(())
    }
}

/// XML-escapes text the way S3 does (entity references, never CDATA).
pub fn xml_escape(s: &str) -> String {
    let mut o = String::with_capacity(s.len());
    for c in s.chars() {
        match c {
            '&' => o.push_str("&amp;"),
            '<' => o.push_str("&lt;"),
            '>' => o.push_str("&gt;"),
            '"' => o.push_str("&quot;"),
            '\'' => o.push_str("&apos;"),
            _ => o.push(c),
        }
    }
    o
}

/// XML-equivalent spellings of the same text: style 0 = named entities; 1 = decimal character references for
/// the five special characters; 2 = hexadecimal references for them; 3 = hexadecimal references for the specials
/// AND for every third ordinary character (a parser must treat `&#x41;` exactly like `A`).
pub fn xml_escape_styled(s: &str, style: u8) -> String {
    if style % 4 == 0 {
        return xml_escape(s);
    }
    let mut o = String::with_capacity(s.len() * 2);
    for (i, c) in s.chars().enumerate() {
        let special = matches!(c, '&' | '<' | '>' | '"' | '\'');
        // XML 1.0 cannot carry most control characters even as references; leave them as they are
        let referable = c == '\t' || c == '\n' || c == '\r' || (c >= ' ' && c != '\u{FFFE}' && c != '\u{FFFF}');
        if special || (style % 4 == 3 && i % 3 == 2 && referable && !c.is_whitespace()) {
            match style % 4 {
                1 => o.push_str(&format!("&#{};", c as u32)),
                _ => o.push_str(&format!("&#x{:X};", c as u32)),
            }
        } else {
            o.push(c);
        }
    }
    o
}

pub fn continuation_token(last_key: &str) -> String {
    last_key.bytes().map(|b| format!("{:02x}", b)).collect()
}

/// S3 pagination: given the objects selected by the prefix (in byte order), drop everything up to and including the key
/// named by the request's `continuation-token` (as issued by `list_document`) or `start-after` parameter.
pub fn page_after(mut objects: Vec<ListedObject>, req: &Request) -> Vec<ListedObject> {
    let after: Option<Vec<u8>> = if let Some(tok) = req.query_value("continuation-token") {
        let t = tok.as_bytes();
        Some((0..t.len() / 2).filter_map(|i| std::str::from_utf8(&t[2 * i..2 * i + 2]).ok().and_then(|h| u8::from_str_radix(h, 16).ok())).collect())
    } else {
        req.query_value("start-after").map(|v| v.as_bytes().to_vec())
    };
    if let Some(a) = after {
        objects.retain(|o| o.key.as_bytes() > &a[..]);
    }
    objects
}

#[derive(Clone, Debug)]
pub struct ListedObject {
    pub key: String,
    pub last_modified: String,
    pub size: String,
}

/// Renders a ListObjectsV2 result document.
pub fn list_document(bucket: &str, prefix: &str, objects: &[ListedObject], truncated: bool, pretty: bool, extras: bool, max_keys: Option<usize>) -> String {
    list_document_styled(bucket, prefix, objects, truncated, pretty, extras, max_keys, 0)
}

#[allow(clippy::too_many_arguments)]
pub fn list_document_styled(bucket: &str, prefix: &str, objects: &[ListedObject], truncated: bool, pretty: bool, extras: bool, max_keys: Option<usize>, style: u8) -> String {
    let xml_escape = |t: &str| xml_escape_styled(t, style);
    let nl = if pretty { "\n  " } else { "" };
    let mut s = String::from("<?xml version=\"1.0\" encoding=\"UTF-8\"?>\n<ListBucketResult xmlns=\"http://s3.amazonaws.com/doc/2006-03-01/\">");
    s.push_str(&format!("{}<Name>{}</Name>", nl, xml_escape(bucket)));
    s.push_str(&format!("{}<Prefix>{}</Prefix>", nl, xml_escape(prefix)));
    if extras {
        s.push_str(&format!("{}<KeyCount>{}</KeyCount>", nl, objects.len()));
    }
    s.push_str(&format!("{}<MaxKeys>{}</MaxKeys>", nl, max_keys.unwrap_or(1000)));
    s.push_str(&format!("{}<IsTruncated>{}</IsTruncated>", nl, if truncated { "true" } else { "false" }));
    for o in objects {
        let nl2 = if pretty { "\n    " } else { "" };
        s.push_str(&format!("{}<Contents>", nl));
        s.push_str(&format!("{}<Key>{}</Key>", nl2, xml_escape(&o.key)));
        s.push_str(&format!("{}<LastModified>{}</LastModified>", nl2, xml_escape(&o.last_modified)));
        if extras {
            s.push_str(&format!("{}<ETag>&quot;9b2cf535f27731c974343645a3985328&quot;</ETag>", nl2));
        }
        s.push_str(&format!("{}<Size>{}</Size>", nl2, xml_escape(&o.size)));
        if extras {
            s.push_str(&format!("{}<Owner><ID>abc</ID><DisplayName>noaa</DisplayName></Owner>", nl2));
            s.push_str(&format!("{}<StorageClass>STANDARD</StorageClass>", nl2));
        }
        s.push_str(&format!("{}</Contents>", nl));
    }
    if truncated && extras {
        // an opaque token that this simulator honours (see `page_after`): the hex form of the last key of the page
        let token = objects.last().map(|o| continuation_token(&o.key)).unwrap_or_else(|| "00".into());
        s.push_str(&format!("{}<NextContinuationToken>{}</NextContinuationToken>", nl, token));
    }
    if pretty {
        s.push('\n');
    }
    s.push_str("</ListBucketResult>");
    s
}


/// Spells an instant as an xs:dateTime / RFC 3339 string in one of several equivalent ways: `Z`, `+00:00`, or a
/// numeric offset with the clock reading shifted accordingly (style 2: -05:00, 3: +05:30, 4: -05:00 or -06:00 depending
/// on the parity of `salt`, 5: +14:00 / -12:00 by parity). The instant is the same in every style.
pub fn spell_instant(dt: chrono::DateTime<chrono::Utc>, style: u8, salt: u64) -> String {
    let offset_min: i32 = match style % 6 {
        0 => return dt.format("%Y-%m-%dT%H:%M:%S%.3fZ").to_string(),
        1 => 0,
        2 => -300,
        3 => 330,
        4 => if salt % 2 == 0 { -300 } else { -360 },
        _ => if salt % 2 == 0 { 840 } else { -720 },
    };
    let tz = chrono::FixedOffset::east_opt(offset_min * 60).expect("valid offset");
    dt.with_timezone(&tz).format("%Y-%m-%dT%H:%M:%S%.3f%:z").to_string()
}
