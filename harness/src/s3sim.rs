//! placeholder (filled in with C15/C17/C18)
