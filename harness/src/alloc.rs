//! Counting global allocator with per-thread current / peak counters (used by C04's memory bound).

use std::alloc::{GlobalAlloc, Layout, System};
use std::cell::Cell;

pub struct Counting;

thread_local! {
    static CURRENT: Cell<isize> = const { Cell::new(0) };
    static PEAK: Cell<isize> = const { Cell::new(0) };
    static LARGEST: Cell<usize> = const { Cell::new(0) };
}

/// Hard ceiling on the live bytes of one thread.  Nothing these checks run legitimately holds more than a few hundred
/// MiB; a run-away allocation loop in the code under test would otherwise take the whole machine down.  Exceeding it
/// aborts the process (a global allocator must not unwind); the abort journal then names the case.
pub const THREAD_LIVE_LIMIT: isize = 12 << 30;

#[inline]
fn add(n: usize) {
    let _ = CURRENT.try_with(|c| {
        let v = c.get() + n as isize;
        c.set(v);
        if v > THREAD_LIVE_LIMIT {
            const MSG: &[u8] = b"memory allocation ceiling of the checker exceeded: one thread holds more than 12 GiB (run-away allocation in the code under test)\n";
            // SAFETY: write(2) on stderr and abort() are async-signal-safe and do not allocate
            unsafe {
                libc::write(2, MSG.as_ptr() as *const libc::c_void, MSG.len());
                libc::abort();
            }
        }
        let _ = PEAK.try_with(|p| {
            if v > p.get() {
                p.set(v);
            }
        });
    });
    let _ = LARGEST.try_with(|l| {
        if n > l.get() {
            l.set(n);
        }
    });
}

#[inline]
fn sub(n: usize) {
    let _ = CURRENT.try_with(|c| c.set(c.get() - n as isize));
}

unsafe impl GlobalAlloc for Counting {
    unsafe fn alloc(&self, layout: Layout) -> *mut u8 {
        let p = System.alloc(layout);
        if !p.is_null() {
            add(layout.size());
        }
        p
    }
    unsafe fn dealloc(&self, ptr: *mut u8, layout: Layout) {
        System.dealloc(ptr, layout);
        sub(layout.size());
    }
    unsafe fn alloc_zeroed(&self, layout: Layout) -> *mut u8 {
        let p = System.alloc_zeroed(layout);
        if !p.is_null() {
            add(layout.size());
        }
        p
    }
    unsafe fn realloc(&self, ptr: *mut u8, layout: Layout, new_size: usize) -> *mut u8 {
        let p = System.realloc(ptr, layout, new_size);
        if !p.is_null() {
            if new_size >= layout.size() {
                add(new_size - layout.size());
            } else {
                sub(layout.size() - new_size);
            }
        }
        p
    }
}

/// Measures peak additional bytes and the largest single allocation made by `f` on this thread.
pub fn measure<T>(f: impl FnOnce() -> T) -> (T, usize, usize) {
    let base = CURRENT.with(|c| c.get());
    PEAK.with(|p| p.set(base));
    LARGEST.with(|l| l.set(0));
    let out = f();
    let peak = PEAK.with(|p| p.get());
    let largest = LARGEST.with(|l| l.get());
    (out, (peak - base).max(0) as usize, largest)
}
