//! Abort journal: turns a death of the checker process (allocation failure, stack overflow, abort(), double panic)
//! into a reproducible case.
//!
//! Worker threads publish the case they are about to judge (a ready-made replay document, or raw input bytes for
//! the byte-level properties).  A SIGABRT handler writes the aborting thread's document to
//! `work/journal/<ID>-<pid>.json` with async-signal-safe calls only and ends the process with exit status 70.
//! The `check` driver then re-runs that document in a fresh process: if it dies again the case becomes the replay
//! file of a VIOLATION (sig `process-abort`), otherwise the run is inconclusive.

use std::cell::Cell;
use std::sync::atomic::{AtomicPtr, AtomicU64, AtomicUsize, Ordering};

const MAX_THREADS: usize = 256;

struct Slot {
    ptr: AtomicPtr<u8>,
    len: AtomicUsize,
    /// 0 = the buffer is a complete JSON replay document; 1 = raw input bytes (emitted as {"bytes":[..]})
    kind: AtomicUsize,
}

#[allow(clippy::declare_interior_mutable_const)]
const EMPTY: Slot = Slot { ptr: AtomicPtr::new(std::ptr::null_mut()), len: AtomicUsize::new(0), kind: AtomicUsize::new(0) };
static SLOTS: [Slot; MAX_THREADS] = [EMPTY; MAX_THREADS];
static NEXT: AtomicUsize = AtomicUsize::new(0);
static PATH: AtomicPtr<libc::c_char> = AtomicPtr::new(std::ptr::null_mut());
static PREFIX: AtomicPtr<u8> = AtomicPtr::new(std::ptr::null_mut());
static PREFIX_LEN: AtomicUsize = AtomicUsize::new(0);
/// progress counters readable from the handler
pub static EVALUATIONS: AtomicU64 = AtomicU64::new(0);
pub static NONTRIVIAL: AtomicU64 = AtomicU64::new(0);

thread_local! {
    static INDEX: Cell<usize> = const { Cell::new(usize::MAX) };
    static BUF: std::cell::RefCell<Vec<u8>> = const { std::cell::RefCell::new(Vec::new()) };
}

fn my_index() -> usize {
    INDEX.with(|i| {
        if i.get() == usize::MAX {
            i.set(NEXT.fetch_add(1, Ordering::Relaxed));
        }
        i.get()
    })
}

/// Publish a complete replay document for the case the calling thread is about to judge.
pub fn publish_doc(doc: &[u8]) {
    let idx = my_index();
    if idx >= MAX_THREADS {
        return;
    }
    BUF.with(|b| {
        let mut b = b.borrow_mut();
        b.clear();
        b.extend_from_slice(doc);
        SLOTS[idx].len.store(0, Ordering::SeqCst);
        SLOTS[idx].ptr.store(b.as_mut_ptr(), Ordering::SeqCst);
        SLOTS[idx].kind.store(0, Ordering::SeqCst);
        SLOTS[idx].len.store(b.len(), Ordering::SeqCst);
    });
}

/// Publish raw input bytes (byte-level properties).
pub fn publish_bytes(input: &[u8]) {
    let idx = my_index();
    if idx >= MAX_THREADS {
        return;
    }
    BUF.with(|b| {
        let mut b = b.borrow_mut();
        b.clear();
        b.extend_from_slice(&input[..input.len().min(8 << 20)]);
        SLOTS[idx].len.store(0, Ordering::SeqCst);
        SLOTS[idx].ptr.store(b.as_mut_ptr(), Ordering::SeqCst);
        SLOTS[idx].kind.store(1, Ordering::SeqCst);
        SLOTS[idx].len.store(b.len(), Ordering::SeqCst);
    });
}

pub fn clear() {
    let idx = INDEX.with(|i| i.get());
    if idx < MAX_THREADS {
        SLOTS[idx].len.store(0, Ordering::SeqCst);
    }
}

unsafe fn write_all(fd: libc::c_int, mut p: *const u8, mut n: usize) {
    while n > 0 {
        let w = libc::write(fd, p as *const libc::c_void, n);
        if w <= 0 {
            return;
        }
        p = p.add(w as usize);
        n -= w as usize;
    }
}

unsafe fn write_u64(fd: libc::c_int, mut v: u64) {
    let mut buf = [0u8; 20];
    let mut i = buf.len();
    if v == 0 {
        i -= 1;
        buf[i] = b'0';
    }
    while v > 0 {
        i -= 1;
        buf[i] = b'0' + (v % 10) as u8;
        v /= 10;
    }
    write_all(fd, buf.as_ptr().add(i), buf.len() - i);
}

extern "C" fn on_abort(_sig: libc::c_int) {
    // async-signal-safe calls only: open / write / close / _exit
    unsafe {
        let path = PATH.load(Ordering::SeqCst);
        let idx = INDEX.try_with(|i| i.get()).unwrap_or(usize::MAX);
        if !path.is_null() && idx < MAX_THREADS {
            let len = SLOTS[idx].len.load(Ordering::SeqCst);
            let ptr = SLOTS[idx].ptr.load(Ordering::SeqCst);
            if len > 0 && !ptr.is_null() {
                let fd = libc::open(path, libc::O_WRONLY | libc::O_CREAT | libc::O_TRUNC, 0o644);
                if fd >= 0 {
                    if SLOTS[idx].kind.load(Ordering::SeqCst) == 0 {
                        write_all(fd, ptr, len);
                    } else {
                        let pre = PREFIX.load(Ordering::SeqCst);
                        write_all(fd, pre, PREFIX_LEN.load(Ordering::SeqCst));
                        for k in 0..len {
                            if k > 0 {
                                write_all(fd, b",".as_ptr(), 1);
                            }
                            write_u64(fd, *ptr.add(k) as u64);
                        }
                        write_all(fd, b"]}}".as_ptr(), 3);
                    }
                    // progress counters on a trailer line (ignored by the JSON reader, read by the driver)
                    write_all(fd, b"\n#evaluations=".as_ptr(), 14);
                    write_u64(fd, EVALUATIONS.load(Ordering::Relaxed));
                    write_all(fd, b" nontrivial=".as_ptr(), 12);
                    write_u64(fd, NONTRIVIAL.load(Ordering::Relaxed));
                    write_all(fd, b"\n".as_ptr(), 1);
                    libc::close(fd);
                    libc::_exit(70);
                }
            }
        }
        libc::_exit(71);
    }
}

/// Install the handler.  `bytes_sub` names the sub-check under which a raw-bytes case is replayed.
pub fn install(id: &str, bytes_sub: &str) {
    let dir = crate::runner::verif_root().join("work").join("journal");
    let _ = std::fs::create_dir_all(&dir);
    let path = dir.join(format!("{}-{}.json", id, std::process::id()));
    if let Ok(c) = std::ffi::CString::new(path.display().to_string()) {
        PATH.store(c.into_raw(), Ordering::SeqCst);
    }
    let prefix = format!(
        "{{\"property\":\"{}\",\"sub\":\"{}\",\"sig\":\"process-abort\",\"detail\":\"the checker process was aborted while judging this input\",\"case\":{{\"bytes\":[",
        id, bytes_sub
    )
    .into_bytes()
    .into_boxed_slice();
    PREFIX_LEN.store(prefix.len(), Ordering::SeqCst);
    PREFIX.store(Box::leak(prefix).as_mut_ptr(), Ordering::SeqCst);
    // SAFETY: installing a plain C handler for SIGABRT; the handler only uses async-signal-safe calls
    unsafe {
        let mut sa: libc::sigaction = std::mem::zeroed();
        sa.sa_sigaction = on_abort as usize;
        sa.sa_flags = libc::SA_ONSTACK;
        libc::sigemptyset(&mut sa.sa_mask);
        libc::sigaction(libc::SIGABRT, &sa, std::ptr::null_mut());
    }
}

pub fn journal_path(id: &str) -> std::path::PathBuf {
    crate::runner::verif_root().join("work").join("journal").join(format!("{}-{}.json", id, std::process::id()))
}
