//! Seeded proptest runner, case accounting, evidence and replay writing.
//!
//! Every random choice flows through proptest strategies driven by an RNG derived from
//! (VERIF_SEED, property id, sub-check name, worker index).  Exhaustive sub-checks are plain loops.

use proptest::strategy::{Strategy, ValueTree};
use proptest::test_runner::{Config, RngAlgorithm, TestCaseError, TestError, TestRng, TestRunner};
use serde::de::DeserializeOwned;
use serde::Serialize;
use serde_json::{json, Value};
use std::cell::RefCell;
use std::collections::{BTreeMap, HashSet};
use std::hash::{Hash, Hasher};
use std::panic::{self, AssertUnwindSafe};
use std::path::PathBuf;
use std::sync::atomic::{AtomicBool, Ordering};
use std::sync::Mutex;
use std::time::Instant;

/// Root of the verification tree: /verif, or $VERIF_ROOT for background runs from a snapshot.
pub fn verif_root() -> PathBuf {
    match std::env::var("VERIF_ROOT") {
        Ok(v) if !v.is_empty() => PathBuf::from(v),
        _ => PathBuf::from("/verif"),
    }
}

/// Set (by the `check` driver) when this binary is the second build of the harness: cargo profile `nodebug`
/// = release without debug assertions and overflow checks, i.e. what a user's `--release` build runs.
pub fn profile_tag() -> Option<String> {
    std::env::var("VERIF_PROFILE_TAG").ok().filter(|s| !s.is_empty())
}

#[derive(Clone, Copy, PartialEq, Eq, Debug)]
pub enum Tier {
    Quick,
    Thorough,
}

impl Tier {
    pub fn name(self) -> &'static str {
        match self {
            Tier::Quick => "quick",
            Tier::Thorough => "thorough",
        }
    }
    /// Picks the quick or thorough budget.
    pub fn pick<T>(self, quick: T, thorough: T) -> T {
        match self {
            Tier::Quick => quick,
            Tier::Thorough => thorough,
        }
    }
}

#[derive(Clone)]
pub struct Ctx {
    pub id: &'static str,
    pub tier: Tier,
    pub seed: u64,
    pub threads: usize,
}

/// An oracle failure: `sig` names the root cause class (stable across inputs), `detail` the specifics.
#[derive(Clone, Debug)]
pub struct Fail {
    pub sig: String,
    pub detail: String,
}

impl Fail {
    pub fn new(sig: impl Into<String>, detail: impl Into<String>) -> Self {
        Fail {
            sig: sig.into(),
            detail: detail.into(),
        }
    }
}

pub type Check = Result<(), Fail>;

#[macro_export]
macro_rules! ensure {
    ($cond:expr, $sig:expr, $($arg:tt)*) => {
        if !($cond) {
            return Err($crate::runner::Fail::new($sig, format!($($arg)*)));
        }
    };
}

#[macro_export]
macro_rules! ensure_eq {
    ($a:expr, $b:expr, $sig:expr) => {
        match (&$a, &$b) {
            (a, b) => {
                if a != b {
                    return Err($crate::runner::Fail::new(
                        $sig,
                        format!("{} = {:?} but expected {} = {:?}", stringify!($a), a, stringify!($b), b),
                    ));
                }
            }
        }
    };
    ($a:expr, $b:expr, $sig:expr, $($arg:tt)*) => {
        match (&$a, &$b) {
            (a, b) => {
                if a != b {
                    return Err($crate::runner::Fail::new(
                        $sig,
                        format!("{}: {} = {:?} but expected {:?}", format!($($arg)*), stringify!($a), a, b),
                    ));
                }
            }
        }
    };
}

/// `ensure_eq!` for values of the code's own enum / struct types: equal by the type's `PartialEq` AND by their Debug
/// rendering, so that a hand-written `PartialEq` (which may equate different variants) cannot satisfy the oracle.
#[macro_export]
macro_rules! ensure_same {
    ($a:expr, $b:expr, $sig:expr, $($arg:tt)*) => {
        match (&$a, &$b) {
            (a, b) => {
                if a != b || format!("{:?}", a) != format!("{:?}", b) {
                    return Err($crate::runner::Fail::new(
                        $sig,
                        format!("{}: {} = {:?} but expected {:?} (compared by == and by Debug rendering)", format!($($arg)*), stringify!($a), a, b),
                    ));
                }
            }
        }
    };
}

// ---------------------------------------------------------------------------------------------
// Panic capture
// ---------------------------------------------------------------------------------------------

thread_local! {
    static LAST_PANIC: RefCell<Option<String>> = const { RefCell::new(None) };
    static QUIET: RefCell<u32> = const { RefCell::new(0) };
}

pub fn install_panic_hook() {
    crate::logsink::install_from_env();
    let default = panic::take_hook();
    panic::set_hook(Box::new(move |info| {
        let quiet = QUIET.with(|q| *q.borrow() > 0);
        if quiet {
            let msg = if let Some(s) = info.payload().downcast_ref::<&str>() {
                s.to_string()
            } else if let Some(s) = info.payload().downcast_ref::<String>() {
                s.clone()
            } else {
                "<non-string panic>".to_string()
            };
            let loc = info
                .location()
                .map(|l| format!("{}:{}", l.file(), l.line()))
                .unwrap_or_default();
            LAST_PANIC.with(|p| *p.borrow_mut() = Some(format!("{} @ {}", msg, loc)));
        } else {
            default(info);
        }
    }));
}

/// Runs `f`, converting a panic into `Err(message @ file:line)`.
pub fn guard<T>(f: impl FnOnce() -> T) -> Result<T, String> {
    QUIET.with(|q| *q.borrow_mut() += 1);
    let r = panic::catch_unwind(AssertUnwindSafe(f));
    QUIET.with(|q| *q.borrow_mut() -= 1);
    match r {
        Ok(v) => Ok(v),
        Err(_) => Err(LAST_PANIC
            .with(|p| p.borrow_mut().take())
            .unwrap_or_else(|| "<panic>".to_string())),
    }
}

/// Like `guard` but turns a panic into a `Fail` with signature `panic:<what>`.
pub fn no_panic<T>(what: &str, f: impl FnOnce() -> T) -> Result<T, Fail> {
    guard(f).map_err(|m| Fail::new(format!("panic:{}", what), format!("{} panicked: {}", what, m)))
}

// ---------------------------------------------------------------------------------------------
// Hashing
// ---------------------------------------------------------------------------------------------

pub fn hash_bytes(b: &[u8]) -> u64 {
    #[allow(deprecated)]
    let mut h = std::hash::SipHasher::new_with_keys(0x6e65_7872_6164_2d76, 0x6572_6966_2d68_6173);
    b.hash(&mut h);
    h.finish()
}

pub fn hash_case<T: Serialize>(v: &T) -> u64 {
    match bincode::serialize(v) {
        Ok(b) => hash_bytes(&b),
        Err(_) => hash_bytes(serde_json::to_string(v).unwrap_or_default().as_bytes()),
    }
}

fn derive_seed(seed: u64, id: &str, sub: &str, worker: usize) -> [u8; 32] {
    let mut out = [0u8; 32];
    for i in 0..4u64 {
        let s = format!("{}|{}|{}|{}|{}", seed, id, sub, worker, i);
        out[(i as usize) * 8..(i as usize + 1) * 8].copy_from_slice(&hash_bytes(s.as_bytes()).to_le_bytes());
    }
    out
}

// ---------------------------------------------------------------------------------------------
// Case description
// ---------------------------------------------------------------------------------------------

/// What the classifier says about one generated case.
/// Evidence samples are illustrations, not replay files: long arrays and strings are cut so that an evidence file
/// stays small (a clutter-map case is megabytes otherwise).
pub fn abbreviate(v: &Value, depth: usize) -> Value {
    const KEEP: usize = 12;
    match v {
        Value::Array(a) => {
            let keep = if depth >= 4 { 4 } else { KEEP };
            let mut out: Vec<Value> = a.iter().take(keep).map(|x| abbreviate(x, depth + 1)).collect();
            if a.len() > keep {
                out.push(Value::String(format!("... {} more elements", a.len() - keep)));
            }
            Value::Array(out)
        }
        Value::Object(o) => Value::Object(o.iter().map(|(k, x)| (k.clone(), abbreviate(x, depth + 1))).collect()),
        Value::String(s) if s.len() > 400 => Value::String(format!("{}... ({} chars)", s.chars().take(400).collect::<String>(), s.len())),
        other => other.clone(),
    }
}

#[derive(Default)]
pub struct CaseInfo {
    pub nontrivial: bool,
    pub classes: Vec<&'static str>,
}

impl CaseInfo {
    pub fn new(nontrivial: bool) -> Self {
        CaseInfo {
            nontrivial,
            classes: Vec::new(),
        }
    }
    pub fn class(mut self, cond: bool, name: &'static str) -> Self {
        if cond {
            self.classes.push(name);
        }
        self
    }
}

#[derive(Clone, Debug)]
pub struct Violation {
    pub sub: String,
    pub sig: String,
    pub detail: String,
    pub case: Value,
    pub replay_path: Option<PathBuf>,
}

#[derive(Default)]
struct SubStats {
    evaluations: u64,
    nontrivial: HashSet<u64>,
    enumerated_nontrivial: u64,
    classes: BTreeMap<String, u64>,
    samples: Vec<Value>,
    excluded: u64,
    exhaustive: bool,
    rule: String,
}

pub struct Report {
    pub ctx: Ctx,
    started: Instant,
    subs: BTreeMap<String, SubStats>,
    order: Vec<String>,
    pub violations: Vec<Violation>,
    pub known_hits: Vec<(String, String)>,
    pub assumptions: Vec<String>,
    pub trusted_base: Vec<String>,
    pub inconclusive: Vec<String>,
    known: Vec<crate::findings::Known>,
    pub extra: BTreeMap<String, Value>,
    /// publish every generated case to the abort journal (for properties whose cases are expensive anyway)
    pub journal_cases: bool,
}

const MAX_SAMPLES_PER_SUB: usize = 3;

impl Report {
    pub fn new(ctx: Ctx) -> Self {
        let known = crate::findings::load(ctx.id);
        Report {
            ctx,
            started: Instant::now(),
            subs: BTreeMap::new(),
            order: Vec::new(),
            violations: Vec::new(),
            known_hits: Vec::new(),
            assumptions: Vec::new(),
            trusted_base: Vec::new(),
            inconclusive: Vec::new(),
            known,
            extra: BTreeMap::new(),
            journal_cases: false,
        }
    }

    fn sub(&mut self, name: &str) -> &mut SubStats {
        if !self.subs.contains_key(name) {
            self.order.push(name.to_string());
        }
        self.subs.entry(name.to_string()).or_default()
    }

    pub fn assume(&mut self, s: &str) {
        if !self.assumptions.iter().any(|a| a == s) {
            self.assumptions.push(s.to_string());
        }
    }

    pub fn trust(&mut self, s: &str) {
        if !self.trusted_base.iter().any(|a| a == s) {
            self.trusted_base.push(s.to_string());
        }
    }

    pub fn is_known(&self, sig: &str) -> Option<&crate::findings::Known> {
        self.known.iter().find(|k| k.sig == sig)
    }

    /// Record a failure found by a hand-rolled (enumerating) sub-check.
    pub fn record_failure(&mut self, sub: &str, fail: Fail, case: Value) {
        if let Some(k) = self.is_known(&fail.sig) {
            let entry = (fail.sig.clone(), k.text.clone());
            if !self.known_hits.contains(&entry) {
                self.known_hits.push(entry);
            }
            return;
        }
        // one violation per (sub, sig) is enough
        if self.violations.iter().any(|v| v.sub == sub && v.sig == fail.sig) {
            return;
        }
        self.violations.push(Violation {
            sub: sub.to_string(),
            sig: fail.sig,
            detail: fail.detail,
            case,
            replay_path: None,
        });
    }

    /// Account for a block of enumerated (exhaustive) evaluations.
    pub fn enumerated(&mut self, sub: &str, rule: &str, evaluations: u64, nontrivial: u64, exhaustive: bool) {
        let s = self.sub(sub);
        s.evaluations += evaluations;
        s.enumerated_nontrivial += nontrivial;
        s.exhaustive = exhaustive;
        if s.rule.is_empty() {
            s.rule = rule.to_string();
        }
    }

    pub fn sample(&mut self, sub: &str, v: Value) {
        let s = self.sub(sub);
        if s.samples.len() < MAX_SAMPLES_PER_SUB {
            s.samples.push(v);
        }
    }

    pub fn class(&mut self, sub: &str, class: &str, n: u64) {
        *self.sub(sub).classes.entry(class.to_string()).or_insert(0) += n;
    }

    pub fn excluded(&mut self, sub: &str, n: u64) {
        self.sub(sub).excluded += n;
    }

    pub fn class_count(&self, sub: &str, class: &str) -> u64 {
        self.subs
            .get(sub)
            .and_then(|s| s.classes.get(class))
            .copied()
            .unwrap_or(0)
    }

    /// Generator health: the run is inconclusive if a class the design relies on is starved.
    pub fn require_class(&mut self, sub: &str, class: &str, min: u64) {
        let got = self.class_count(sub, class);
        if got < min {
            self.inconclusive.push(format!(
                "generator health: sub-check {} produced only {} cases of class '{}' (needs >= {})",
                sub, got, class, min
            ));
        }
    }

    /// Run a generated-input sub-check on `ctx.threads` workers.
    ///
    /// * `make` builds the strategy (once per worker);
    /// * `classify` says whether a case is non-trivial and which classes it belongs to;
    /// * `check` is the oracle.
    pub fn prop<S, FMake, FClass, FCheck>(
        &mut self,
        sub: &str,
        rule: &str,
        cases: u64,
        make: FMake,
        classify: FClass,
        check: FCheck,
    ) where
        S: Strategy,
        S::Value: Serialize + Clone + std::fmt::Debug,
        FMake: Fn() -> S + Sync,
        FClass: Fn(&S::Value) -> CaseInfo + Sync,
        FCheck: Fn(&S::Value) -> Check + Sync,
    {
        let threads = self.ctx.threads.max(1).min(cases.max(1) as usize);
        let per = cases / threads as u64;
        let extra = cases % threads as u64;
        let stop = AtomicBool::new(false);
        let merged: Mutex<(SubStats, Vec<(Fail, Value)>)> = Mutex::new((SubStats::default(), Vec::new()));
        let known_sigs: Vec<String> = self.known.iter().map(|k| k.sig.clone()).collect();
        let ctx = self.ctx.clone();
        let journal = self.journal_cases;

        std::thread::scope(|scope| {
            for w in 0..threads {
                let n = per + if (w as u64) < extra { 1 } else { 0 };
                let (stop, merged, make, classify, check, known_sigs, ctx) =
                    (&stop, &merged, &make, &classify, &check, &known_sigs, &ctx);
                std::thread::Builder::new()
                    .stack_size(64 << 20)
                    .spawn_scoped(scope, move || {
                        let local = RefCell::new(SubStats::default());
                        let mut fails: Vec<(Fail, Value)> = Vec::new();
                        let known_seen: RefCell<Vec<(Fail, Value)>> = RefCell::new(Vec::new());
                        if n == 0 {
                            return;
                        }
                        let config = Config {
                            cases: n as u32,
                            failure_persistence: None,
                            max_shrink_iters: 200_000,
                            max_shrink_time: 12_000,
                            max_local_rejects: 65_536,
                            max_global_rejects: 65_536,
                            ..Config::default()
                        };
                        let rng = TestRng::from_seed(RngAlgorithm::ChaCha, &derive_seed(ctx.seed, ctx.id, sub, w));
                        let mut runner = TestRunner::new_with_rng(config, rng);
                        let strategy = make();
                        let failed = std::cell::Cell::new(false);
                        let last_fail: RefCell<Option<Fail>> = RefCell::new(None);
                        let result = runner.run(&strategy, |value| {
                            if stop.load(Ordering::Relaxed) && !failed.get() {
                                // another worker found a violation: finish quickly
                                return Ok(());
                            }
                            let counting = !failed.get();
                            if counting {
                                let mut local = local.borrow_mut();
                                local.evaluations += 1;
                                let info = classify(&value);
                                for c in &info.classes {
                                    *local.classes.entry(c.to_string()).or_insert(0) += 1;
                                }
                                if info.nontrivial {
                                    let h = hash_case(&value);
                                    if local.nontrivial.insert(h) {
                                        crate::journal::NONTRIVIAL.fetch_add(1, Ordering::Relaxed);
                                        if local.samples.len() < MAX_SAMPLES_PER_SUB {
                                            local.samples.push(serde_json::to_value(&value).unwrap_or(Value::Null));
                                        }
                                    }
                                }
                            }
                            if journal {
                                // abort journal: a replay document for this case, written out only if the process dies
                                let doc = json!({"property": ctx.id, "sub": sub, "sig": "process-abort", "detail": "the checker process was aborted while judging this case", "case": &value});
                                crate::journal::publish_doc(doc.to_string().as_bytes());
                            }
                            crate::journal::EVALUATIONS.fetch_add(1, Ordering::Relaxed);
                            let outcome = match guard(|| check(&value)) {
                                Ok(r) => r,
                                Err(p) => Err(Fail::new("panic:oracle-or-code", format!("unexpected panic: {}", p))),
                            };
                            if journal {
                                crate::journal::clear();
                            }
                            match outcome {
                                Ok(()) => Ok(()),
                                Err(f) => {
                                    if known_sigs.iter().any(|k| *k == f.sig) {
                                        let mut known_seen = known_seen.borrow_mut();
                                        if counting && known_seen.iter().all(|(k, _)| k.sig != f.sig) {
                                            known_seen.push((f, serde_json::to_value(&value).unwrap_or(Value::Null)));
                                        }
                                        return Ok(());
                                    }
                                    failed.set(true);
                                    *last_fail.borrow_mut() = Some(f.clone());
                                    Err(TestCaseError::fail(f.sig))
                                }
                            }
                        });
                        match result {
                            Ok(()) => {}
                            Err(TestError::Fail(_, minimal)) => {
                                stop.store(true, Ordering::Relaxed);
                                // re-evaluate the minimal case to get its own failure text
                                let f = match guard(|| check(&minimal)) {
                                    Ok(Err(f)) => f,
                                    Ok(Ok(())) => last_fail
                                        .borrow()
                                        .clone()
                                        .unwrap_or_else(|| Fail::new("unstable", "failure did not reproduce on the shrunk case")),
                                    Err(p) => Fail::new("panic:oracle-or-code", format!("unexpected panic: {}", p)),
                                };
                                fails.push((f, serde_json::to_value(&minimal).unwrap_or(Value::Null)));
                            }
                            Err(TestError::Abort(reason)) => {
                                fails.push((
                                    Fail::new("generator-abort", format!("proptest aborted: {}", reason)),
                                    Value::Null,
                                ));
                            }
                        }
                        let local = local.into_inner();
                        let known_seen = known_seen.into_inner();
                        let mut m = merged.lock().unwrap_or_else(|e| e.into_inner());
                        m.0.evaluations += local.evaluations;
                        for h in local.nontrivial {
                            m.0.nontrivial.insert(h);
                        }
                        for (k, v) in local.classes {
                            *m.0.classes.entry(k).or_insert(0) += v;
                        }
                        for s in local.samples {
                            if m.0.samples.len() < MAX_SAMPLES_PER_SUB {
                                m.0.samples.push(s);
                            }
                        }
                        for f in fails {
                            m.1.push(f);
                        }
                        for (f, v) in known_seen {
                            let mut f = f;
                            f.sig = format!("KNOWN:{}", f.sig);
                            m.1.push((f, v));
                        }
                    })
                    .expect("spawn worker");
            }
        });

        let (stats, fails) = merged.into_inner().unwrap_or_else(|e| e.into_inner());
        {
            let s = self.sub(sub);
            s.evaluations += stats.evaluations;
            for h in stats.nontrivial {
                s.nontrivial.insert(h);
            }
            for (k, v) in stats.classes {
                *s.classes.entry(k).or_insert(0) += v;
            }
            for v in stats.samples {
                if s.samples.len() < MAX_SAMPLES_PER_SUB {
                    s.samples.push(v);
                }
            }
            if s.rule.is_empty() {
                s.rule = rule.to_string();
            }
        }
        for (mut f, case) in fails {
            if let Some(sig) = f.sig.strip_prefix("KNOWN:") {
                f.sig = sig.to_string();
            }
            if f.sig == "generator-abort" {
                self.inconclusive.push(format!("{}: {}", sub, f.detail));
                continue;
            }
            self.record_failure(sub, f, case);
        }
    }

    /// Replay a list of committed regression cases through `check` (no proptest involved).
    pub fn replay_cases<T, F>(&mut self, sub: &str, cases: &[(String, T)], check: F)
    where
        T: Serialize + DeserializeOwned,
        F: Fn(&T) -> Check,
    {
        for (name, case) in cases {
            let outcome = match guard(|| check(case)) {
                Ok(r) => r,
                Err(p) => Err(Fail::new("panic:oracle-or-code", format!("unexpected panic: {}", p))),
            };
            self.sub(sub).evaluations += 1;
            if let Err(f) = outcome {
                let mut v = serde_json::to_value(case).unwrap_or(Value::Null);
                if let Value::Object(m) = &mut v {
                    m.insert("_regression".into(), json!(name));
                }
                self.record_failure(sub, f, v);
            }
        }
    }

    // -----------------------------------------------------------------------------------------
    // Finishing
    // -----------------------------------------------------------------------------------------

    pub fn finish(mut self) -> i32 {
        let wall = self.started.elapsed().as_secs_f64();
        let id = self.ctx.id;

        // write replay files
        let replay_dir = verif_root().join("work").join("replay");
        let _ = std::fs::create_dir_all(&replay_dir);
        for v in self.violations.iter_mut() {
            let mut doc = json!({
                "property": id,
                "sub": v.sub,
                "sig": v.sig,
                "detail": v.detail,
                "case": v.case,
            });
            if let Some(tag) = profile_tag() {
                doc["profile"] = json!(tag);
            }
            let text = serde_json::to_string_pretty(&doc).unwrap_or_default();
            let h = hash_bytes(text.as_bytes());
            let path = replay_dir.join(format!("{}-{:016x}.json", id, h));
            if std::fs::write(&path, text).is_ok() {
                v.replay_path = Some(path);
            }
        }

        let mut evaluations = 0u64;
        let mut distinct_nontrivial = 0u64;
        let mut samples: Vec<Value> = Vec::new();
        let mut rules: Vec<String> = Vec::new();
        let mut subs_json = serde_json::Map::new();
        let mut all_exhaustive = !self.subs.is_empty();
        let mut any_exhaustive = false;
        for name in &self.order {
            let s = &self.subs[name];
            evaluations += s.evaluations;
            let dn = s.nontrivial.len() as u64 + s.enumerated_nontrivial;
            distinct_nontrivial += dn;
            for smp in &s.samples {
                let mut short = abbreviate(smp, 0);
                let text = short.to_string();
                if text.len() > 20_000 {
                    short = json!({ "json_prefix": text.chars().take(4000).collect::<String>(), "json_chars": text.len() });
                }
                samples.push(json!({ "sub": name, "case": short }));
            }
            if !s.rule.is_empty() {
                rules.push(format!("[{}] {}", name, s.rule));
            }
            all_exhaustive &= s.exhaustive;
            any_exhaustive |= s.exhaustive;
            subs_json.insert(
                name.clone(),
                json!({
                    "evaluations": s.evaluations,
                    "distinct_nontrivial": dn,
                    "exhaustive": s.exhaustive,
                    "classes": s.classes,
                    "excluded_by_known_finding": s.excluded,
                }),
            );
        }
        if samples.is_empty() {
            samples.push(json!("no case was generated"));
        }
        // merge the numbers of the run of the same check under the `nodebug` build, if the driver made one
        if let Ok(path) = std::env::var("VERIF_MERGE_EVIDENCE") {
            if let Ok(text) = std::fs::read_to_string(&path) {
                if let Ok(other) = serde_json::from_str::<Value>(&text) {
                    let e = other["coverage"]["evaluations"].as_u64().unwrap_or(0);
                    let d = other["coverage"]["distinct_nontrivial"].as_u64().unwrap_or(0);
                    evaluations += e;
                    distinct_nontrivial += d;
                    subs_json.insert(
                        "same-check-under-release-profile".into(),
                        json!({"evaluations": e, "distinct_nontrivial": d, "exhaustive": false, "violations": other["violations"],
                               "note": "the whole check repeated by a second build of the harness (cargo profile nodebug: no debug assertions, no overflow checks), where code guarded by debug_assert! returns instead of panicking"}),
                    );
                    rules.push("[same-check-under-release-profile] every sub-check above repeated by a build without debug assertions and overflow checks (its evaluations are added)".into());
                }
                let _ = std::fs::remove_file(&path);
            }
        }

        let mut coverage = serde_json::Map::new();
        coverage.insert("evaluations".into(), json!(evaluations));
        coverage.insert("distinct_nontrivial".into(), json!(distinct_nontrivial));
        coverage.insert("rule".into(), json!(rules.join(" || ")));
        coverage.insert("samples".into(), Value::Array(samples));
        coverage.insert("exhaustive".into(), json!(all_exhaustive));
        coverage.insert("some_subchecks_exhaustive".into(), json!(any_exhaustive));
        coverage.insert("sub_checks".into(), Value::Object(subs_json));
        coverage.insert("trusted_base".into(), json!(self.trusted_base));
        coverage.insert(
            "known_findings_reproduced".into(),
            json!(self.known_hits.iter().map(|(s, t)| format!("{} {}", s, t)).collect::<Vec<_>>()),
        );
        coverage.insert(
            "violations_detail".into(),
            json!(self
                .violations
                .iter()
                .map(|v| json!({"sub": v.sub, "sig": v.sig, "detail": v.detail,
                               "replay": v.replay_path.as_ref().map(|p| p.display().to_string())}))
                .collect::<Vec<_>>()),
        );
        coverage.insert("inconclusive".into(), json!(self.inconclusive));
        coverage.insert(
            "environment".into(),
            json!({
                "TZ": std::env::var("TZ").unwrap_or_default(),
                "logger": {"level": crate::logsink::level_name(),
                           "records_formatted": crate::logsink::RECORDS.load(std::sync::atomic::Ordering::Relaxed),
                           "bytes_formatted": crate::logsink::BYTES.load(std::sync::atomic::Ordering::Relaxed)},
                "debug_assertions": cfg!(debug_assertions),
            }),
        );
        for (k, v) in &self.extra {
            coverage.insert(k.clone(), v.clone());
        }

        let evidence = json!({
            "property_id": id,
            "tier": self.ctx.tier.name(),
            "seed": self.ctx.seed,
            "level": "exploration",
            "coverage": Value::Object(coverage),
            "assumptions": self.assumptions,
            "wall_s": (wall * 1000.0).round() / 1000.0,
            "violations": self.violations.len(),
        });
        let ev_dir = match profile_tag() {
            Some(tag) => verif_root().join("work").join(format!("evidence-{}", tag)),
            None => verif_root().join("evidence"),
        };
        let _ = std::fs::create_dir_all(&ev_dir);
        let ev_path = ev_dir.join(format!("{}.json", id));
        if let Err(e) = std::fs::write(&ev_path, serde_json::to_string_pretty(&evidence).unwrap_or_default()) {
            eprintln!("cannot write evidence {}: {}", ev_path.display(), e);
            return 2;
        }

        for (sig, text) in &self.known_hits {
            println!("KNOWN-FINDING: property={} sig={} {}", id, sig, text);
        }
        for v in &self.violations {
            println!(
                "VIOLATION property={} replay={}",
                id,
                v.replay_path
                    .as_ref()
                    .map(|p| p.display().to_string())
                    .unwrap_or_else(|| "<unwritable>".into())
            );
            println!("  sub-check {} [{}]: {}", v.sub, v.sig, truncate(&v.detail, 1200));
        }
        println!(
            "{}{} {} seed={} evaluations={} distinct_nontrivial={} violations={} wall={:.1}s",
            profile_tag().map(|t| format!("[{} build] ", t)).unwrap_or_default(),
            id,
            self.ctx.tier.name(),
            self.ctx.seed,
            evaluations,
            distinct_nontrivial,
            self.violations.len(),
            wall
        );
        if !self.violations.is_empty() {
            return 1;
        }
        if !self.inconclusive.is_empty() {
            for m in &self.inconclusive {
                println!("INCONCLUSIVE property={} {}", id, m);
            }
            return 2;
        }
        0
    }
}

pub fn truncate(s: &str, n: usize) -> String {
    if s.len() <= n {
        s.to_string()
    } else {
        let mut end = n;
        while !s.is_char_boundary(end) {
            end -= 1;
        }
        format!("{}…", &s[..end])
    }
}

/// Draw one value from a strategy with a dedicated deterministic RNG (used to build fixed corpora).
pub fn draw<S: Strategy>(strategy: &S, seed: u64, tag: &str, index: usize) -> S::Value {
    let rng = TestRng::from_seed(RngAlgorithm::ChaCha, &derive_seed(seed, "draw", tag, index));
    let mut runner = TestRunner::new_with_rng(
        Config {
            failure_persistence: None,
            ..Config::default()
        },
        rng,
    );
    strategy
        .new_tree(&mut runner)
        .expect("strategy must produce a value")
        .current()
}

/// Monotone index map used instead of `%` so that shrinking towards 0 shrinks the choice.
pub fn pick_index(raw: u16, len: usize) -> usize {
    if len == 0 {
        0
    } else {
        ((raw as usize) * len) >> 16
    }
}

/// Parse a replay document.
pub fn load_replay(path: &std::path::Path) -> Result<(String, String, Value), String> {
    let text = std::fs::read_to_string(path).map_err(|e| format!("cannot read {}: {}", path.display(), e))?;
    let doc: Value = serde_json::from_str(&text).map_err(|e| format!("bad replay json: {}", e))?;
    let prop = doc.get("property").and_then(|v| v.as_str()).unwrap_or("").to_string();
    let sub = doc.get("sub").and_then(|v| v.as_str()).unwrap_or("").to_string();
    let case = doc.get("case").cloned().unwrap_or(Value::Null);
    Ok((prop, sub, case))
}

pub fn from_case<T: DeserializeOwned>(case: &Value) -> Result<T, Fail> {
    serde_json::from_value(case.clone()).map_err(|e| Fail::new("replay-format", format!("cannot parse replay case: {}", e)))
}


// ---------------------------------------------------------------------------------------------
// A reader that delivers the same bytes in short reads (at most `step` bytes per call).
// The decode entry points are generic over `Read`; what they return must not depend on how the
// reader happens to chunk the bytes.
// ---------------------------------------------------------------------------------------------

pub struct Chunked<'a> {
    data: &'a [u8],
    pos: u64,
    step: usize,
    calls: u64,
}

impl<'a> Chunked<'a> {
    pub fn new(data: &'a [u8], step: usize) -> Self {
        Chunked { data, pos: 0, step: step.max(1), calls: 0 }
    }
    pub fn at(data: &'a [u8], step: usize, pos: u64) -> Self {
        Chunked { data, pos, step: step.max(1), calls: 0 }
    }
}

impl std::io::Read for Chunked<'_> {
    fn read(&mut self, buf: &mut [u8]) -> std::io::Result<usize> {
        // `Read` allows a call to fail with ErrorKind::Interrupted without consuming anything (EINTR); callers must
        // retry, as read_exact does. Readers with step 5 or 113 report it on every third call.
        self.calls += 1;
        if (self.step == 5 || self.step == 113) && self.calls % 3 == 2 {
            return Err(std::io::Error::new(std::io::ErrorKind::Interrupted, "interrupted (injected)"));
        }
        let start = (self.pos as usize).min(self.data.len());
        let n = buf.len().min(self.step).min(self.data.len() - start);
        buf[..n].copy_from_slice(&self.data[start..start + n]);
        self.pos += n as u64;
        Ok(n)
    }
}

impl std::io::Seek for Chunked<'_> {
    fn seek(&mut self, from: std::io::SeekFrom) -> std::io::Result<u64> {
        let new = match from {
            std::io::SeekFrom::Start(p) => p as i128,
            std::io::SeekFrom::End(d) => self.data.len() as i128 + d as i128,
            std::io::SeekFrom::Current(d) => self.pos as i128 + d as i128,
        };
        if new < 0 {
            return Err(std::io::Error::new(std::io::ErrorKind::InvalidInput, "seek before start"));
        }
        self.pos = new as u64;
        Ok(self.pos)
    }
}

pub const CHUNK_STEPS: [usize; 4] = [1, 5, 27, 113];
