//! C16  Chunk and archive identifiers: parsing and successor arithmetic.

use crate::model::{days_from_civil, days_in_month, successor};
use crate::runner::{from_case, no_panic, CaseInfo, Check, Ctx, Fail, Report};
use crate::{ensure, ensure_eq};
use chrono::{DateTime, Utc};
use nexrad_data::aws::archive::Identifier;
use nexrad_data::aws::realtime::{ChunkIdentifier, ChunkType, NextChunk, VolumeIndex};
use proptest::prelude::*;
use serde::{Deserialize, Serialize};
use serde_json::{json, Value};

fn type_letter(seq: usize) -> &'static str {
    match seq {
        1 => "S",
        55 => "E",
        _ => "I",
    }
}
fn expected_type(seq: usize) -> ChunkType {
    match seq {
        1 => ChunkType::Start,
        55 => ChunkType::End,
        _ => ChunkType::Intermediate,
    }
}

#[derive(Clone, Debug, Serialize, Deserialize)]
pub struct PosCase {
    pub site: String,
    pub volume: usize,
    pub prefix: String, // 15 chars
    pub sequence: usize,
    pub other_sequence: usize,
}

pub fn chunk_name(prefix: &str, seq: usize) -> String {
    format!("{}-{:03}-{}", prefix, seq, type_letter(seq))
}

pub fn check_position(c: &PosCase) -> Check {
    let upload = DateTime::<Utc>::from_timestamp_millis(1_700_000_000_000 + c.volume as i64 * 1000 + c.sequence as i64);
    let name = chunk_name(&c.prefix, c.sequence);
    let id = no_panic("ChunkIdentifier::new", || {
        ChunkIdentifier::new(c.site.clone(), VolumeIndex::new(c.volume), name.clone(), upload)
    })?;
    ensure_eq!(id.name(), name.as_str(), "chunk:name");
    ensure_eq!(id.site(), c.site.as_str(), "chunk:site");
    ensure_eq!(id.volume().as_number(), c.volume, "chunk:volume");
    ensure_eq!(id.date_time(), upload, "chunk:date_time");
    ensure_eq!(no_panic("sequence", || id.sequence())?, Some(c.sequence), "chunk:sequence-parse-back");
    ensure_eq!(no_panic("chunk_type", || id.chunk_type())?, Some(expected_type(c.sequence)), "chunk:type-parse-back", "sequence {}", c.sequence);
    ensure_eq!(no_panic("name_prefix", || id.name_prefix().to_string())?, c.prefix.clone(), "chunk:prefix-parse-back");

    // deriving an identifier for another sequence keeps site, volume and prefix
    let other = no_panic("with_sequence", || id.with_sequence(c.other_sequence))?;
    ensure_eq!(other.site(), c.site.as_str(), "with_sequence:site");
    ensure_eq!(other.volume().as_number(), c.volume, "with_sequence:volume");
    ensure_eq!(other.name_prefix(), c.prefix.as_str(), "with_sequence:prefix");
    ensure_eq!(other.sequence(), Some(c.other_sequence), "with_sequence:sequence", "asked for {}", c.other_sequence);
    ensure_eq!(other.chunk_type(), Some(expected_type(c.other_sequence)), "with_sequence:type", "asked for {}", c.other_sequence);
    ensure_eq!(other.name(), chunk_name(&c.prefix, c.other_sequence).as_str(), "with_sequence:name");

    // successor
    let (ev, es) = successor(c.volume, c.sequence);
    let next = no_panic("next_chunk", || id.next_chunk())?;
    match next {
        None => return Err(Fail::new("successor:none", format!("next_chunk() is None at ({}, {})", c.volume, c.sequence))),
        Some(NextChunk::Sequence(n)) => {
            ensure!(c.sequence < 55, "successor:no-volume-change-after-55", "({}, {}) -> same-volume chunk {}", c.volume, c.sequence, n.name());
            ensure_eq!(n.volume().as_number(), ev, "successor:volume");
            ensure_eq!(n.sequence(), Some(es), "successor:sequence", "from ({}, {})", c.volume, c.sequence);
            ensure_eq!(n.site(), c.site.as_str(), "successor:site");
            ensure_eq!(n.name_prefix(), c.prefix.as_str(), "successor:prefix");
            ensure_eq!(n.chunk_type(), Some(expected_type(es)), "successor:type", "sequence {}", es);
            ensure_eq!(n.name(), chunk_name(&c.prefix, es).as_str(), "successor:name");
        }
        Some(NextChunk::Volume(v)) => {
            ensure!(c.sequence >= 55, "successor:volume-change-before-55", "({}, {}) -> volume {}", c.volume, c.sequence, v.as_number());
            ensure_eq!(v.as_number(), ev, "successor:next-volume", "from volume {}", c.volume);
            ensure!((1..=999).contains(&v.as_number()), "successor:volume-out-of-range", "volume {}", v.as_number());
        }
    }
    Ok(())
}

#[derive(Clone, Debug, Serialize, Deserialize)]
pub struct CycleCase {
    pub start_volume: usize,
    pub start_sequence: usize,
}

/// Iterating the successor from any start visits all 999 x 55 positions exactly once per cycle.
pub fn check_cycle(c: &CycleCase) -> Check {
    let prefix = "20240804-101007";
    let mut seen = vec![false; 1000 * 56];
    let mut id = ChunkIdentifier::new("KDMX".into(), VolumeIndex::new(c.start_volume), chunk_name(prefix, c.start_sequence), None);
    let mut pos = (c.start_volume, c.start_sequence);
    for step in 0..54_945usize {
        ensure!((1..=999).contains(&pos.0) && (1..=55).contains(&pos.1), "cycle:position-out-of-range", "step {} at {:?}", step, pos);
        let slot = pos.0 * 56 + pos.1;
        ensure!(!seen[slot], "cycle:position-revisited", "position {:?} visited twice (step {})", pos, step);
        seen[slot] = true;
        let next = no_panic("next_chunk", || id.next_chunk())?
            .ok_or_else(|| Fail::new("successor:none", format!("next_chunk() None at {:?}", pos)))?;
        let want = successor(pos.0, pos.1);
        match next {
            NextChunk::Sequence(n) => {
                let got = (n.volume().as_number(), n.sequence().unwrap_or(0));
                ensure_eq!(got, want, "cycle:successor-mismatch", "from {:?}", pos);
                id = n;
            }
            NextChunk::Volume(v) => {
                let got = (v.as_number(), 1usize);
                ensure_eq!(got, want, "cycle:successor-mismatch", "from {:?}", pos);
                id = ChunkIdentifier::new("KDMX".into(), v, chunk_name(prefix, 1), None);
            }
        }
        pos = want;
    }
    ensure_eq!(pos, (c.start_volume, c.start_sequence), "cycle:not-closed-after-54945-steps");
    let visited = seen.iter().filter(|b| **b).count();
    ensure_eq!(visited, 54_945, "cycle:positions-visited");
    Ok(())
}

#[derive(Clone, Debug, Serialize, Deserialize)]
pub struct ArchiveCase {
    pub site: String,
    pub year: i64,
    pub month: u32,
    pub day: u32,
    pub hour: u32,
    pub minute: u32,
    pub second: u32,
    pub suffix: String,
}

pub fn check_archive_name(c: &ArchiveCase) -> Check {
    let name = format!(
        "{}{:04}{:02}{:02}_{:02}{:02}{:02}{}",
        c.site, c.year, c.month, c.day, c.hour, c.minute, c.second, c.suffix
    );
    let id = Identifier::new(name.clone());
    ensure_eq!(id.name(), name.as_str(), "archive:name");
    ensure_eq!(no_panic("Identifier::site", || id.site().map(|s| s.to_string()))?, Some(c.site.clone()), "archive:site");
    let want = days_from_civil(c.year, c.month, c.day) * 86_400_000
        + (c.hour as i64 * 3600 + c.minute as i64 * 60 + c.second as i64) * 1000;
    let got = no_panic("Identifier::date_time", || id.date_time())?.map(|d| d.timestamp_millis());
    ensure_eq!(got, Some(want), "archive:date_time", "name {}", name);
    Ok(())
}

#[derive(Clone, Debug, Serialize, Deserialize)]
pub struct StringCase {
    pub text: String,
}

/// Strict reference parser: Some(instant) only when the text certainly is SSSSYYYYMMDD?HHMMSS.
fn strict_archive_instant(s: &str) -> Option<i64> {
    let b = s.as_bytes();
    if b.len() < 19 || !s.is_char_boundary(4) || !s.is_char_boundary(12) || !s.is_char_boundary(13) || !s.is_char_boundary(19) {
        return None;
    }
    let num = |r: std::ops::Range<usize>| -> Option<i64> {
        let t = &b[r];
        if t.iter().all(|c| c.is_ascii_digit()) {
            std::str::from_utf8(t).ok()?.parse().ok()
        } else {
            None
        }
    };
    let (y, m, d) = (num(4..8)?, num(8..10)? as u32, num(10..12)? as u32);
    let (hh, mm, ss) = (num(13..15)?, num(15..17)?, num(17..19)?);
    if !(1..=12).contains(&m) || d < 1 || d > days_in_month(y, m) || hh > 23 || mm > 59 || ss > 59 {
        return None;
    }
    Some(days_from_civil(y, m, d) * 86_400_000 + (hh * 3600 + mm * 60 + ss) * 1000)
}

pub fn check_string(c: &StringCase) -> Check {
    let s = &c.text;
    // archive parsers
    let id = Identifier::new(s.clone());
    let site = no_panic("Identifier::site", || id.site().map(|x| x.to_string()))?;
    let dt = no_panic("Identifier::date_time", || id.date_time())?;
    if s.len() >= 4 && s.is_char_boundary(4) {
        ensure_eq!(site.as_deref(), Some(&s[..4]), "archive:site-on-arbitrary-text");
    } else {
        ensure_eq!(site, None, "archive:site-should-be-none", "text {:?}", s);
    }
    if let Some(want) = strict_archive_instant(s) {
        ensure_eq!(dt.map(|d| d.timestamp_millis()), Some(want), "archive:date_time-on-wellformed-text", "text {:?}", s);
    }
    if s.len() < 19 || !s.is_char_boundary(4) || !s.is_char_boundary(12) || !s.is_char_boundary(13) || !s.is_char_boundary(19) {
        ensure_eq!(dt, None, "archive:date_time-should-be-none", "text {:?}", s);
    }

    // chunk parsers (sequence and type only: prefix and successor are outside the statement for short names)
    let chunk = ChunkIdentifier::new("KDMX".into(), VolumeIndex::new(1), s.clone(), None);
    let seq = no_panic("ChunkIdentifier::sequence", || chunk.sequence())?;
    let ty = no_panic("ChunkIdentifier::chunk_type", || chunk.chunk_type())?;
    match s.split('-').nth(2) {
        None => ensure_eq!(seq, None, "chunk:sequence-should-be-none", "text {:?}", s),
        Some(field) => {
            if !field.is_empty() && field.len() <= 18 && field.bytes().all(|b| b.is_ascii_digit()) {
                ensure_eq!(seq, field.parse::<usize>().ok(), "chunk:sequence-on-digits", "text {:?}", s);
            } else if field.chars().any(|ch| !(ch.is_ascii_digit() || ch == '+')) || field.is_empty() {
                ensure_eq!(seq, None, "chunk:sequence-should-be-none", "text {:?}", s);
            }
        }
    }
    let want_ty = match s.chars().last() {
        Some('S') => Some(ChunkType::Start),
        Some('I') => Some(ChunkType::Intermediate),
        Some('E') => Some(ChunkType::End),
        _ => None,
    };
    ensure_eq!(ty, want_ty, "chunk:type-on-arbitrary-text", "text {:?}", s);
    Ok(())
}

fn straddles(s: &str) -> bool {
    [4usize, 12, 13, 19].iter().any(|o| *o < s.len() && !s.is_char_boundary(*o))
}

fn string_strategy() -> impl Strategy<Value = StringCase> {
    let multibyte = || prop_oneof![Just("é"), Just("—"), Just("雷"), Just("🌪"), Just("\u{7ff}"), Just("\u{10FFFF}")];
    prop_oneof![
        3 => "\\PC{0,40}".prop_map(|text| StringCase { text }),
        // a multi-byte character placed so that it straddles (or abuts) a slice offset
        4 => (0usize..=20, multibyte(), "[A-Z0-9_\\-]{0,24}", "[A-Z0-9_]{0,20}").prop_map(|(n, mb, tail, head)| {
            let mut text: String = head.chars().chain(std::iter::repeat('K')).take(n).collect();
            text.push_str(mb);
            text.push_str(&tail);
            StringCase { text }
        }),
        // almost well-formed archive names
        2 => ("[A-Z0-9]{4}", "[0-9]{8}", "[_ \\-x]", "[0-9]{6}", "[ -~]{0,8}").prop_map(|(a, b, c, d, e)| StringCase { text: format!("{}{}{}{}{}", a, b, c, d, e) }),
        // almost well-formed chunk names
        2 => ("[0-9]{8}-[0-9]{6}", "[0-9+\\-a-z]{0,4}", "[SIEXsie\\-]?").prop_map(|(p, s, t)| StringCase { text: format!("{}-{}-{}", p, s, t) }),
        1 => "[\\-]{0,6}".prop_map(|text| StringCase { text }),
        1 => (0usize..=24).prop_map(|n| StringCase { text: "K".repeat(n) }),
    ]
}

fn archive_strategy() -> impl Strategy<Value = ArchiveCase> {
    (
        "[A-Z0-9]{4}",
        prop_oneof![3 => 1990i64..=2100, 1 => Just(2000i64), 1 => Just(2024i64), 1 => Just(2100i64)],
        1u32..=12,
        any::<u16>(),
        0u32..24,
        0u32..60,
        0u32..60,
        prop_oneof![Just(""), Just("_V06"), Just("_V06_MDM"), Just(".gz"), Just("_V03.gz"), Just("_V08")],
    )
        .prop_map(|(site, year, month, dsel, hour, minute, second, suffix)| {
            let dim = days_in_month(year, month);
            // boost month ends and leap days
            let day = match dsel % 8 {
                0 => dim,
                1 => 1,
                _ => 1 + (dsel as u32 % dim),
            };
            ArchiveCase { site, year, month, day, hour, minute, second, suffix: suffix.to_string() }
        })
}

pub fn run(ctx: &Ctx, rep: &mut Report) {
    rep.trust("successor model (v,s)->(v,s+1) | (v,55)->(v mod 999 + 1, 1); Hinnant days_from_civil for archive-name instants");
    rep.assume("name_prefix/next_chunk are only called on names of at least 15 bytes (shorter names are outside the statement)");

    // exhaustive position space with three prefixes
    {
        let prefixes = ["20240804-101007", "19991231-235959", "21000229-000000"];
        let mut n = 0u64;
        let mut nt = 0u64;
        for v in 1..=999usize {
            for s in 1..=55usize {
                for (pi, p) in prefixes.iter().enumerate() {
                    let others = [(s * 7 + v + pi) % 55 + 1, 1, 55, 54];
                    let c = PosCase {
                        site: ["KDMX", "KTLX", "PGUA"][pi].to_string(),
                        volume: v,
                        prefix: p.to_string(),
                        sequence: s,
                        other_sequence: others[(v + s) % 4],
                    };
                    n += 1;
                    if s >= 54 || v >= 998 {
                        nt += 1;
                    }
                    if let Err(f) = crate::runner::guard(|| check_position(&c)).unwrap_or_else(|p| Err(Fail::new("panic:oracle-or-code", p))) {
                        rep.record_failure("positions-exhaustive", f, json!(c));
                    }
                }
            }
        }
        rep.enumerated(
            "positions-exhaustive",
            "all 999 x 55 (volume, sequence) positions x 3 prefixes: parse-back, with_sequence, successor; non-trivial = sequence in {54,55} or volume in {998,999}",
            n,
            nt,
            true,
        );
        rep.sample("positions-exhaustive", json!({"site": "KDMX", "volume": 999, "prefix": "20240804-101007", "sequence": 55, "other_sequence": 1}));
    }
    // prefixes whose digits collide with the sequence digits: every time of day HH:MM (thorough: HH:MM:SS) x every sequence
    {
        let mut n = 0u64;
        let mut nt = 0u64;
        let all_seconds = ctx.tier == crate::runner::Tier::Thorough;
        for hh in 0..24usize {
            for mm in 0..60usize {
                for ss in 0..60usize {
                    if !all_seconds && ss != (hh * 7 + mm) % 60 {
                        continue;
                    }
                    for s in 1..=55usize {
                        let prefix = format!("2024{:02}{:02}-{:02}{:02}{:02}", 1 + (s + mm) % 12, 1 + (s + hh) % 28, hh, mm, ss);
                        let collides = prefix.contains(&format!("{:03}", s));
                        let c = PosCase { site: "KCOL".into(), volume: 1 + (hh * 60 + mm + s) % 999, prefix, sequence: s, other_sequence: (s + ss) % 55 + 1 };
                        n += 1;
                        if collides {
                            nt += 1;
                        }
                        if let Err(f) = crate::runner::guard(|| check_position(&c)).unwrap_or_else(|p| Err(Fail::new("panic:oracle-or-code", p))) {
                            rep.record_failure("prefix-digit-collisions", f, json!(c));
                        }
                    }
                }
            }
        }
        rep.enumerated(
            "prefix-digit-collisions",
            "every time of day HH:MM (one second value each; thorough: every HH:MM:SS) x every sequence 1..=55 with varying dates: parse-back, with_sequence, successor; non-trivial = the prefix contains the zero-padded sequence as a digit substring",
            n,
            nt,
            true,
        );
        rep.sample("prefix-digit-collisions", json!({"prefix": "20240813-014530", "sequence": 14}));
    }
    // with_sequence over all 55 x 55 pairs at a few volumes
    {
        let mut n = 0u64;
        for v in [1usize, 500, 999] {
            for s in 1..=55 {
                for o in 1..=55 {
                    let c = PosCase { site: "KABR".into(), volume: v, prefix: "20250101-000000".into(), sequence: s, other_sequence: o };
                    n += 1;
                    if let Err(f) = crate::runner::guard(|| check_position(&c)).unwrap_or_else(|p| Err(Fail::new("panic:oracle-or-code", p))) {
                        rep.record_failure("with-sequence-pairs", f, json!(c));
                    }
                }
            }
        }
        rep.enumerated("with-sequence-pairs", "all 55 x 55 (sequence, other sequence) pairs at volumes 1, 500, 999", n, n, true);
        rep.sample("with-sequence-pairs", json!({"volume": 500, "sequence": 55, "other_sequence": 1}));
    }
    // full cycle from several start points
    {
        let starts = [(1usize, 1usize), (999, 55), (500, 27), (998, 54), (2, 55)];
        for (v, s) in starts {
            let c = CycleCase { start_volume: v, start_sequence: s };
            if let Err(f) = crate::runner::guard(|| check_cycle(&c)).unwrap_or_else(|p| Err(Fail::new("panic:oracle-or-code", p))) {
                rep.record_failure("successor-cycle", f, json!(c));
            }
        }
        rep.enumerated(
            "successor-cycle",
            "full 54,945-step successor walks from 5 start points; each step is one evaluation; non-trivial = steps crossing a volume boundary (999 per walk)",
            5 * 54_945,
            5 * 999,
            true,
        );
        rep.sample("successor-cycle", json!({"start_volume": 999, "start_sequence": 55}));
    }

    rep.prop(
        "archive-names",
        "proptest: SSSSYYYYMMDD_HHMMSS+suffix with site [A-Z0-9]{4}, valid calendar dates 1990-2100 (month ends / leap days boosted), any time, six suffixes; non-trivial = last day of a month or Feb 29",
        ctx.tier.pick(2_000_000, 30_000_000),
        archive_strategy,
        |c| CaseInfo::new(c.day == days_in_month(c.year, c.month)).class(c.month == 2 && c.day == 29, "leap-day").class(c.suffix.is_empty(), "no-suffix"),
        check_archive_name,
    );
    rep.require_class("archive-names", "leap-day", 5);

    rep.prop(
        "arbitrary-strings",
        "proptest: arbitrary Unicode (\\PC{0,40}), strings with a multi-byte character placed around byte offsets 4/12/13/19, near-miss archive and chunk names, dashes only, short ASCII; non-trivial = a multi-byte character straddles one of the slice offsets 4, 12, 13, 19",
        ctx.tier.pick(4_000_000, 60_000_000),
        string_strategy,
        |c| CaseInfo::new(straddles(&c.text)).class(c.text.is_empty(), "empty").class(c.text.len() < 15, "short").class(!c.text.is_ascii(), "non-ascii"),
        check_string,
    );
    rep.require_class("arbitrary-strings", "non-ascii", 100);
}

pub fn replay(sub: &str, case: &Value) -> Check {
    match sub {
        "positions-exhaustive" | "with-sequence-pairs" => check_position(&from_case::<PosCase>(case)?),
        "successor-cycle" => check_cycle(&from_case::<CycleCase>(case)?),
        "archive-names" => check_archive_name(&from_case::<ArchiveCase>(case)?),
        "arbitrary-strings" => check_string(&from_case::<StringCase>(case)?),
        other => super::unknown_sub(other),
    }
}
