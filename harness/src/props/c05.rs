//! C05  Volume container: records tile the file, bzip2 round-trips, header exact.

use crate::gen::{self, DrdOpts};
use crate::model::epoch_millis;
use crate::runner::{from_case, no_panic, CaseInfo, Check, Ctx, Fail, Report};
use crate::wire::*;
use crate::{ensure, ensure_eq};
use nexrad_data::result::Error as DataError;
use nexrad_data::volume::{File, Record};
use proptest::collection::vec;
use proptest::prelude::*;
use serde::{Deserialize, Serialize};
use serde_json::Value;

#[derive(Clone, Debug, Serialize, Deserialize)]
pub enum Payload {
    Bytes(Vec<u8>),
    /// `len` bytes from a xorshift stream; `compressible` repeats a 64-byte window
    Pattern { seed: u64, len: u32, compressible: bool },
    /// a payload that is itself a bzip2 stream of the inner payload
    Nested(Box<Payload>),
    /// a payload that starts with the bzip2 magic but is not a bzip2 stream
    FakeMagic(Vec<u8>),
    /// a valid message stream
    Messages(Vec<MsgSpec>),
    /// a payload that itself looks like an LDM record: four arbitrary bytes, "BZ", then arbitrary bytes (bytes 4..6 of the
    /// *payload* spell the magic although nothing is compressed there)
    RecordLike([u8; 4], Vec<u8>),
    /// a payload that IS a complete LDM record (size prefix + bzip2 of the inner payload): a doubly wrapped record
    WrappedRecord(Box<Payload>),
}

impl Payload {
    pub fn bytes(&self) -> Vec<u8> {
        match self {
            Payload::Bytes(b) => b.clone(),
            Payload::Pattern { seed, len, compressible } => {
                let mut x = *seed | 1;
                let mut v = Vec::with_capacity(*len as usize);
                while v.len() < *len as usize {
                    x ^= x << 13;
                    x ^= x >> 7;
                    x ^= x << 17;
                    v.push((x >> 29) as u8);
                    if *compressible && v.len() >= 64 {
                        let n = v.len();
                        let window: Vec<u8> = v[n - 64..n].to_vec();
                        while v.len() + 64 <= *len as usize && v.len() < n + 64 * 200 {
                            v.extend_from_slice(&window);
                        }
                    }
                }
                v.truncate(*len as usize);
                v
            }
            Payload::Nested(inner) => bzip2_compress(&inner.bytes(), 9),
            Payload::FakeMagic(rest) => {
                let mut v = b"BZh9".to_vec();
                v.extend_from_slice(rest);
                v
            }
            Payload::Messages(m) => encode_stream(m).0,
            Payload::RecordLike(prefix, rest) => {
                let mut v = prefix.to_vec();
                v.extend_from_slice(b"BZ");
                v.extend_from_slice(rest);
                v
            }
            Payload::WrappedRecord(inner) => encode_record(&bzip2_compress(&inner.bytes(), 5), false),
        }
    }
}

#[derive(Clone, Debug, Serialize, Deserialize)]
pub enum Body {
    /// body = bzip2(payload)
    Compressed { payload: Payload, level: u8 },
    /// raw body bytes; never starts with "BZ"
    Raw(Vec<u8>),
    /// raw body that starts with "BZ" although it is no bzip2 stream: reported compressed by design
    RawLooksCompressed(Vec<u8>),
}

#[derive(Clone, Debug, Serialize, Deserialize)]
pub struct RecordSpec {
    pub body: Body,
    pub negative_prefix: bool,
}

#[derive(Clone, Debug, Serialize, Deserialize)]
pub struct FileCase {
    pub header: VolHeaderSpec,
    pub records: Vec<RecordSpec>,
}

fn body_bytes(b: &Body) -> Vec<u8> {
    match b {
        Body::Compressed { payload, level } => bzip2_compress(&payload.bytes(), *level as u32),
        Body::Raw(v) => v.clone(),
        Body::RawLooksCompressed(rest) => {
            let mut v = b"BZ".to_vec();
            v.extend_from_slice(rest);
            v
        }
    }
}

pub fn check_header(h: &VolHeaderSpec, file: &File) -> Check {
    let hdr = no_panic("File::header", || file.header())?.map_err(|e| Fail::new("header:decode-error", format!("{:?}", e)))?;
    // the public Header::deserialize is generic over Read: short reads must not matter
    {
        let raw = h.encode();
        for step in [1usize, 5, 23] {
            let mut r = crate::runner::Chunked::new(&raw, step);
            let hc = no_panic("Header::deserialize", || nexrad_data::volume::Header::deserialize(&mut r))?
                .map_err(|e| Fail::new("header:decode-error-short-reads", format!("reader delivering {} byte(s) per read: {:?}", step, e)))?;
            ensure!(hc == hdr, "header:depends-on-read-chunking", "header decoded from a reader delivering {} byte(s) per read differs", step);
        }
    }
    let utf8 = |b: &[u8]| String::from_utf8(b.to_vec()).ok();
    ensure_eq!(hdr.tape_filename(), utf8(&h.tape), "header:tape_filename@0");
    ensure_eq!(hdr.extension_number(), utf8(&h.ext), "header:extension_number@9");
    ensure_eq!(hdr.icao_of_radar(), utf8(&h.icao), "header:icao_of_radar@20");
    let want = epoch_millis(h.date as u16, h.time as u64);
    ensure_eq!(hdr.date_time().map(|d| d.timestamp_millis()), Some(want), "header:date_time@12", "date {} time {}", h.date, h.time);
    Ok(())
}

pub fn check_file(c: &FileCase) -> Check {
    let mut bytes = c.header.encode().to_vec();
    let mut encoded: Vec<Vec<u8>> = Vec::new();
    let mut bodies: Vec<Vec<u8>> = Vec::new();
    for r in &c.records {
        let body = body_bytes(&r.body);
        let rec = encode_record(&body, r.negative_prefix);
        bytes.extend_from_slice(&rec);
        encoded.push(rec);
        bodies.push(body);
    }
    let file = File::new(bytes.clone());
    ensure!(file.data() == &bytes, "file:data-differs", "File::data() differs from the bytes given");
    check_header(&c.header, &file)?;

    let records = no_panic("File::records", || file.records())?;
    ensure_eq!(records.len(), c.records.len(), "tiling:record-count");
    // reuse: listing the records of the same file object again gives the same list
    let again = no_panic("File::records", || file.records())?;
    ensure!(again.len() == records.len() && again.iter().zip(records.iter()).all(|(a, b)| a.data() == b.data()), "tiling:second-listing-differs", "records() of the same File differs the second time");
    let mut concat: Vec<u8> = Vec::new();
    for (i, (rec, spec)) in records.iter().zip(c.records.iter()).enumerate() {
        ensure!(rec.data() == &encoded[i][..], "tiling:record-bytes", "record {} is not its size prefix plus |size| bytes ({} vs {} bytes)", i, rec.data().len(), encoded[i].len());
        concat.extend_from_slice(rec.data());
        let looks = bodies[i].len() >= 2 && &bodies[i][..2] == b"BZ";
        ensure_eq!(no_panic("Record::compressed", || rec.compressed())?, looks, "compressed-flag", "record {} body starts {:?}", i, &bodies[i][..bodies[i].len().min(4)]);
        match &spec.body {
            Body::Compressed { payload, .. } => {
                let out = no_panic("Record::decompress", || rec.decompress())?
                    .map_err(|e| Fail::new("roundtrip:decompress-error", format!("record {}: {:?}", i, e)))?;
                let want = payload.bytes();
                ensure!(out.data() == &want[..], "roundtrip:payload-differs", "record {}: decompressed {} bytes, payload has {} bytes", i, out.data().len(), want.len());
                // the record handed back by decompress() is a record like any other: it reports compressed exactly when
                // 'BZ' follows its first four bytes, and behaves like a record built from the same bytes
                let out_looks = want.len() >= 6 && &want[4..6] == b"BZ";
                ensure_eq!(no_panic("Record::compressed", || out.compressed())?, out_looks, "compressed-flag:decompressed-record", "record {}: decompressed payload starts {:?}", i, &want[..want.len().min(8)]);
                let twin = Record::new(want.clone());
                ensure_eq!(format!("{:?}", out), format!("{:?}", twin), "roundtrip:decompressed-record-differs-from-twin", "record {}: Debug rendering of decompress()'s record vs Record::new(same bytes)", i);
                ensure_eq!(no_panic("Record::decompress", || out.decompress().map(|r| r.data().len()).map_err(|e| format!("{:?}", e)))?, twin.decompress().map(|r| r.data().len()).map_err(|e| format!("{:?}", e)), "roundtrip:decompressed-record-differs-from-twin", "record {}: decompress() of decompress()'s record vs of Record::new(same bytes)", i);
                ensure_eq!(no_panic("Record::messages", || out.messages().map(|m| m.len()).map_err(|e| format!("{:?}", e)))?, twin.messages().map(|m| m.len()).map_err(|e| format!("{:?}", e)), "roundtrip:decompressed-record-differs-from-twin", "record {}: messages() of decompress()'s record vs of Record::new(same bytes)", i);
                let m = no_panic("Record::messages", || rec.messages())?;
                ensure!(matches!(m, Err(DataError::CompressedDataError)), "compressed-record-decodes", "record {}: messages() on a compressed record must be CompressedDataError, got {}", i, describe(&m));
                // a record that carries a valid message stream decodes after decompression
                if let Payload::Messages(specs) = payload {
                    let msgs = no_panic("Record::messages", || out.messages())?;
                    // the decompressed record itself is 'compressed' only if its bytes 4..6 spell BZ
                    if !out.compressed() {
                        let msgs = msgs.map_err(|e| Fail::new("roundtrip:messages-error", format!("record {}: {:?}", i, e)))?;
                        ensure_eq!(msgs.len(), specs.len(), "roundtrip:message-count", "record {}", i);
                    }
                }
            }
            Body::Raw(_) => {
                let d = no_panic("Record::decompress", || rec.decompress())?;
                ensure!(matches!(d, Err(DataError::UncompressedDataError)), "uncompressed-record-decompresses", "record {}: decompress() on an uncompressed record must be UncompressedDataError, got {}", i, if d.is_ok() { "Ok" } else { "another error" });
            }
            Body::RawLooksCompressed(_) => {
                // by design reported compressed; only totality is asserted for decompress
                let _ = no_panic("Record::decompress", || rec.decompress().map(|_| ()))?;
            }
        }
    }
    ensure!(concat == bytes[24..], "tiling:concatenation-differs", "records concatenate to {} bytes, file remainder has {}", concat.len(), bytes.len() - 24);
    Ok(())
}

fn describe<T>(r: &Result<T, DataError>) -> String {
    match r {
        Ok(_) => "Ok".into(),
        Err(e) => format!("{:?}", e),
    }
}

fn payload_strategy() -> BoxedStrategy<Payload> {
    let leaf = prop_oneof![
        2 => Just(Payload::Bytes(Vec::new())),
        4 => prop_oneof![Just(1usize), Just(2), Just(5), Just(6), Just(7)].prop_flat_map(|n| vec(any::<u8>(), n)).prop_map(Payload::Bytes),
        6 => vec(any::<u8>(), 0..=300).prop_map(Payload::Bytes),
        2 => (any::<u64>(), 1000u32..=70_000, any::<bool>()).prop_map(|(seed, len, compressible)| Payload::Pattern { seed, len, compressible }),
        1 => (any::<u64>(), Just(65_536u32), any::<bool>()).prop_map(|(seed, len, compressible)| Payload::Pattern { seed, len, compressible }),
        2 => vec(any::<u8>(), 0..=40).prop_map(Payload::FakeMagic),
        3 => vec(gen::msg(DrdOpts { small: true, ..DrdOpts::framing() }), 0..=4).prop_map(Payload::Messages),
    ];
    prop_oneof![
        8 => leaf.clone(),
        1 => leaf.clone().prop_map(|p| Payload::Nested(Box::new(p))),
        1 => (any::<[u8; 4]>(), prop_oneof![Just(Vec::new()), vec(any::<u8>(), 1..=60), Just(b"h91AY&SY".to_vec())]).prop_map(|(p, r)| Payload::RecordLike(p, r)),
        1 => leaf.prop_map(|p| Payload::WrappedRecord(Box::new(p))),
    ]
    .boxed()
}

fn record_strategy() -> impl Strategy<Value = RecordSpec> {
    let raw = vec(any::<u8>(), 0..=80).prop_map(|mut v| {
        if v.len() >= 2 && &v[..2] == b"BZ" {
            v[0] = b'A';
        }
        Body::Raw(v)
    });
    let body = prop_oneof![
        6 => (payload_strategy(), 1u8..=9).prop_map(|(payload, level)| Body::Compressed { payload, level }),
        3 => raw,
        1 => Just(Body::Raw(Vec::new())),
        1 => vec(any::<u8>(), 0..=40).prop_map(Body::RawLooksCompressed),
    ];
    (body, prop_oneof![2 => Just(false), 1 => Just(true)]).prop_map(|(body, negative_prefix)| RecordSpec { body, negative_prefix })
}

fn header_strategy() -> impl Strategy<Value = VolHeaderSpec> {
    gen::vol_header()
}

pub fn classify(c: &FileCase) -> CaseInfo {
    let compressed = c.records.iter().filter(|r| matches!(r.body, Body::Compressed { .. })).count();
    let negative = c.records.iter().any(|r| r.negative_prefix);
    let zero_body = c.records.iter().any(|r| matches!(&r.body, Body::Raw(v) if v.is_empty()));
    CaseInfo::new(c.records.len() >= 2 && compressed >= 1 && (negative || zero_body))
        .class(c.records.is_empty(), "no-records")
        .class(negative, "negative-prefix")
        .class(zero_body, "zero-length-body")
        .class(c.records.iter().any(|r| matches!(&r.body, Body::Compressed { payload: Payload::Nested(_), .. })), "payload-is-bzip2")
        .class(c.records.iter().any(|r| matches!(&r.body, Body::Compressed { payload: Payload::FakeMagic(_), .. })), "payload-starts-with-magic")
        .class(c.records.iter().any(|r| matches!(&r.body, Body::Compressed { payload: Payload::RecordLike(..) | Payload::WrappedRecord(_), .. })), "payload-looks-like-a-record")
        .class(c.records.iter().any(|r| matches!(&r.body, Body::Compressed { payload: Payload::Pattern { len, .. }, .. } if *len >= 60_000)), "payload-64KiB")
        .class(c.records.iter().any(|r| matches!(&r.body, Body::RawLooksCompressed(_))), "raw-looks-compressed")
        .class(std::str::from_utf8(&c.header.tape).is_err() || std::str::from_utf8(&c.header.icao).is_err(), "header-not-utf8")
}

#[derive(Clone, Debug, Serialize, Deserialize)]
pub struct AfterFailureCase {
    /// payload of the record that is damaged and decompressed first (large enough for several bzip2 blocks)
    pub damaged_seed: u64,
    pub damaged_len: u32,
    /// 0 = truncate the compressed stream at `at`, 1 = flip a byte at `at` (scaled into the last two thirds)
    pub damage_kind: u8,
    pub at: u16,
    /// the well-formed record decompressed afterwards on the same thread
    pub good: Payload,
    pub repeats: u8,
}

/// History clause: a failed (or partially successful) decompression must not influence a later one.
pub fn check_after_failure(c: &AfterFailureCase) -> Check {
    use nexrad_data::volume::Record;
    let big = Payload::Pattern { seed: c.damaged_seed, len: c.damaged_len, compressible: false }.bytes();
    let mut stream = bzip2_compress(&big, 1); // 100 KB blocks: several blocks for payloads > 100 KB
    let n = stream.len();
    let pos = n / 3 + ((c.at as usize * (n - n / 3)) >> 16);
    if c.damage_kind % 2 == 0 {
        stream.truncate(pos.max(8));
    } else if pos < n {
        stream[pos] ^= 0x5A;
    }
    let damaged = Record::new(encode_record(&stream, false));
    let good_payload = c.good.bytes();
    let good = Record::new(encode_record(&bzip2_compress(&good_payload, 9), false));
    for round in 0..=c.repeats.min(3) {
        // whatever the damaged record yields (error or some bytes) is not judged here, only that it returns
        let _ = no_panic("Record::decompress", || damaged.decompress().map(|r| r.data().len()))?;
        let out = no_panic("Record::decompress", || good.decompress())?
            .map_err(|e| Fail::new("roundtrip:decompress-error", format!("round {}: {:?}", round, e)))?;
        ensure!(
            out.data() == &good_payload[..],
            "roundtrip:payload-differs-after-failed-decompress",
            "round {}: after a failed decompression on the same thread the next record decompressed to {} bytes, its payload has {} bytes",
            round, out.data().len(), good_payload.len()
        );
    }
    Ok(())
}

pub fn run(ctx: &Ctx, rep: &mut Report) {
    rep.journal_cases = true;
    rep.trust("independent container encoder: 24-byte header (9+3+4+4+4), records = 4-byte big-endian signed size + |size| bytes");
    rep.trust("libbz2 through the bzip2 crate is used to *produce* compressed bodies; the round-trip oracle is the payload, not the compressor");
    rep.assume("a raw body that begins with 'BZ' is reported compressed by design; only its flag (and totality of decompress) is asserted");

    // a few very large payloads every run (300 KiB, thorough: more)
    {
        let n = ctx.tier.pick(3usize, 60usize);
        for i in 0..n {
            let strat = (header_strategy(), any::<u64>(), any::<bool>(), any::<bool>());
            let (header, seed, compressible, negative) = crate::runner::draw(&strat, ctx.seed, "c05-big", i);
            let c = FileCase {
                header,
                records: vec![
                    RecordSpec { body: Body::Compressed { payload: Payload::Pattern { seed, len: 300 * 1024 + i as u32, compressible }, level: 1 + (i % 9) as u8 }, negative_prefix: negative },
                    RecordSpec { body: Body::Raw(vec![]), negative_prefix: false },
                    RecordSpec { body: Body::Compressed { payload: Payload::Bytes(vec![i as u8; 3]), level: 9 }, negative_prefix: true },
                ],
            };
            let r = crate::runner::guard(|| check_file(&c)).unwrap_or_else(|p| Err(Fail::new("panic:oracle-or-code", p)));
            if let Err(f) = r {
                rep.record_failure("files", f, serde_json::json!(c));
            }
        }
        rep.enumerated("big-payloads", "seeded files whose first record carries a 300 KiB payload (compressible or not), followed by an empty raw record and a negative-prefix record", n as u64, n as u64, false);
        rep.sample("big-payloads", serde_json::json!({"payload_len": 300 * 1024}));
    }

    rep.prop(
        "files",
        "proptest: 24-byte header (valid UTF-8 and arbitrary bytes; date 1..=65535) + 0..40 records whose bodies are bzip2(payload) for payloads {empty, 1-7 bytes, random, 1-70 KB patterns, 64 KiB, fake-magic, nested bzip2, valid message streams} or raw bytes (incl. empty, incl. 'BZ'-prefixed), size prefix written positive or negative; non-trivial = >= 2 records with >= 1 compressed and >= 1 negative prefix or zero-length body",
        ctx.tier.pick(20_000, 600_000),
        || {
            let n = prop_oneof![1 => Just(0usize), 2 => Just(1usize), 8 => 2usize..=6, 2 => 7usize..=40];
            (header_strategy(), n.prop_flat_map(|n| vec(record_strategy(), n))).prop_map(|(header, records)| FileCase { header, records })
        },
        classify,
        check_file,
    );
    rep.prop(
        "decompress-after-failure",
        "proptest (operation sequence): decompress a damaged multi-block record (stream truncated or a byte flipped in its last two thirds, so that output was already produced when the failure occurs), then decompress a well-formed record on the same thread, up to 4 rounds: the second result must be its payload byte-for-byte; every case is non-trivial",
        ctx.tier.pick(600, 12_000),
        || {
            (any::<u64>(), 150_000u32..=420_000, any::<u8>(), any::<u16>(), payload_strategy(), 0u8..=3).prop_map(|(damaged_seed, damaged_len, damage_kind, at, good, repeats)| AfterFailureCase { damaged_seed, damaged_len, damage_kind, at, good, repeats })
        },
        |c| CaseInfo::new(true).class(c.damage_kind % 2 == 0, "truncated-stream").class(c.damage_kind % 2 == 1, "corrupted-block"),
        check_after_failure,
    );
    rep.require_class("files", "negative-prefix", 50);
    rep.require_class("files", "zero-length-body", 20);
    rep.require_class("files", "payload-is-bzip2", 10);
    rep.require_class("files", "no-records", 3);
}

pub fn replay(sub: &str, case: &Value) -> Check {
    match sub {
        "files" => check_file(&from_case::<FileCase>(case)?),
        "decompress-after-failure" => check_after_failure(&from_case::<AfterFailureCase>(case)?),
        other => super::unknown_sub(other),
    }
}
