//! Support for the libFuzzer campaigns of C04 / C06: seed corpus, artifact triage, corpus classification.

use crate::props::{c04, c06};
use crate::runner::{self, hash_bytes, Fail};
use proptest::collection::vec;
use serde_json::json;
use std::collections::HashSet;
use std::path::Path;

fn check(id: &str, bytes: &[u8]) -> Result<(), Fail> {
    let r = match id {
        "C04" => runner::guard(|| c04::check_bytes(bytes, true)),
        _ => runner::guard(|| c06::check_bytes(bytes)),
    };
    match r {
        Ok(r) => r,
        Err(p) => Err(Fail::new("panic:oracle-or-code", p)),
    }
}

fn nontrivial(id: &str, bytes: &[u8]) -> bool {
    match id {
        "C04" => c04::past_fixed_header(bytes),
        _ => bytes.len() < 24 || bytes.starts_with(b"AR2") || (bytes.len() >= 6 && &bytes[4..6] == b"BZ"),
    }
}

/// Structured targets (C01 / C02 / C03 / C14): the fuzzer's bytes are decoded into a case by `ufuzz`.
fn run_structured(id: &str, target: &str, cmd: &str, path: &Path, seed: u64) -> i32 {
    use crate::ufuzz;
    match cmd {
        "corpus" => {
            if std::fs::create_dir_all(path).is_err() {
                return 2;
            }
            // any byte string decodes to a valid case: seed with random strings of graded length
            let lens = [0usize, 16, 64, 128, 256, 512, 1024, 2048, 4096, 8192];
            for (i, n) in lens.iter().enumerate() {
                for j in 0..3 {
                    let b = runner::draw(&vec(proptest::prelude::any::<u8>(), *n), seed, "fuzz-corpus-structured", i * 3 + j);
                    let _ = std::fs::write(path.join(format!("seed-{:03}", i * 3 + j)), b);
                }
            }
            println!("{} seed files written to {}", lens.len() * 3, path.display());
            0
        }
        "artifact" => {
            let bytes = match std::fs::read(path) {
                Ok(b) => b,
                Err(e) => {
                    eprintln!("cannot read {}: {}", path.display(), e);
                    return 2;
                }
            };
            let r = runner::guard(|| ufuzz::run_target(target, &bytes));
            let (f, case, sub) = match r {
                Ok(Ok(())) => {
                    println!("artifact {}: property holds on the decoded case under the harness oracle", path.display());
                    return 0;
                }
                Ok(Err((f, case, _, sub))) => (f, case, sub),
                Err(p) => (Fail::new("panic:oracle-or-code", p), ufuzz::case_json(target, &bytes), ufuzz::sub_for(target)),
            };
            if f.sig.starts_with("inconclusive") {
                println!("INCONCLUSIVE property={} {}", id, f.detail);
                return 2;
            }
            let doc = json!({"property": id, "sub": sub, "sig": f.sig, "detail": f.detail, "case": case});
            let text = serde_json::to_string_pretty(&doc).unwrap_or_default();
            let dir = runner::verif_root().join("work").join("replay");
            let _ = std::fs::create_dir_all(&dir);
            let out = dir.join(format!("{}-{:016x}.json", id, hash_bytes(text.as_bytes())));
            let _ = std::fs::write(&out, text);
            println!("VIOLATION property={} replay={}", id, out.display());
            println!("  fuzz artifact {} (structured target {}) [{}]: {}", path.display(), target, f.sig, runner::truncate(&f.detail, 1000));
            1
        }
        _ => {
            let mut n = 0u64;
            let mut seen = HashSet::new();
            let mut samples = Vec::new();
            if let Ok(rd) = std::fs::read_dir(path) {
                for e in rd.filter_map(|e| e.ok()) {
                    if let Ok(b) = std::fs::read(e.path()) {
                        n += 1;
                        let (nontrivial, summary) = ufuzz::describe(target, &b);
                        if nontrivial && seen.insert(hash_bytes(&b)) && samples.len() < 3 {
                            samples.push(json!({"len": b.len(), "decoded_case": summary}));
                        }
                    }
                }
            }
            println!("{}", json!({"files": n, "distinct_nontrivial": seen.len(), "samples": samples}));
            0
        }
    }
}

pub fn run(id: &str, cmd: &str, path: &Path, seed: u64) -> i32 {
    if let Some(target) = crate::ufuzz::target_for(id) {
        return run_structured(id, target, cmd, path, seed);
    }
    if id != "C04" && id != "C06" {
        eprintln!("fuzz support exists for C01, C02, C03, C04, C06 and C14 only");
        return 2;
    }
    match cmd {
        "corpus" => {
            if std::fs::create_dir_all(path).is_err() {
                return 2;
            }
            let mut files: Vec<Vec<u8>> = vec![Vec::new()];
            if id == "C04" {
                let valid = vec(crate::gen::msg(crate::gen::DrdOpts { small: true, ..crate::gen::DrdOpts::framing() }), 1..=3);
                for i in 0..24 {
                    let msgs = runner::draw(&valid, seed, "fuzz-corpus-valid", i);
                    files.push(crate::wire::encode_stream(&msgs).0);
                }
                for i in 0..40 {
                    let c = runner::draw(&c04::mut_case_strategy(), seed, "fuzz-corpus-mutated", i);
                    files.push(c04::apply(&c));
                }
                // wasteful-but-valid layouts (long pointer tables designating one block)
                files.push(c04::duplicate_pointer_message(64, 200, true, seed));
                files.push(c04::duplicate_pointer_message(1_000, 60, false, seed));
            } else {
                for i in 0..16 {
                    let v = runner::draw(&c06::small_volume(), seed, "fuzz-corpus-volume", i);
                    let (bytes, _, _) = crate::props::c01::build_file(&v);
                    if bytes.len() > 60 {
                        files.push(bytes[..bytes.len() / 2].to_vec());
                    }
                    files.push(bytes);
                }
                let opts = crate::gen::DrdOpts { small: true, ..crate::gen::DrdOpts::framing() };
                for i in 0..12 {
                    let msgs = runner::draw(&vec(crate::gen::msg(opts), 0..=2), seed, "fuzz-corpus-chunk", i);
                    files.push(c06::base_bytes(&c06::Base::RecordChunk(msgs)).0);
                }
                for i in 0..16 {
                    let b = runner::draw(&c06::crafted_base(), seed, "fuzz-corpus-crafted", i);
                    files.push(c06::base_bytes(&b).0);
                }
            }
            for (i, f) in files.iter().enumerate() {
                if f.len() <= 16_384 {
                    let _ = std::fs::write(path.join(format!("seed-{:03}", i)), f);
                }
            }
            println!("{} seed files written to {}", files.len(), path.display());
            0
        }
        "artifact" => {
            let bytes = match std::fs::read(path) {
                Ok(b) => b,
                Err(e) => {
                    eprintln!("cannot read {}: {}", path.display(), e);
                    return 2;
                }
            };
            match check(id, &bytes) {
                Ok(()) => {
                    println!("artifact {}: property holds on this input under the harness oracle", path.display());
                    0
                }
                Err(f) if f.sig.starts_with("inconclusive") => {
                    println!("INCONCLUSIVE property={} {}", id, f.detail);
                    2
                }
                Err(f) => {
                    let case = if id == "C04" { json!({"bytes": bytes}) } else { json!({"bytes": bytes}) };
                    let doc = json!({"property": id, "sub": "fuzz", "sig": f.sig, "detail": f.detail, "case": case});
                    let text = serde_json::to_string_pretty(&doc).unwrap_or_default();
                    let dir = runner::verif_root().join("work").join("replay");
                    let _ = std::fs::create_dir_all(&dir);
                    let out = dir.join(format!("{}-{:016x}.json", id, hash_bytes(text.as_bytes())));
                    let _ = std::fs::write(&out, text);
                    println!("VIOLATION property={} replay={}", id, out.display());
                    println!("  fuzz artifact {} [{}]: {}", path.display(), f.sig, runner::truncate(&f.detail, 1000));
                    1
                }
            }
        }
        _ => {
            let mut n = 0u64;
            let mut seen = HashSet::new();
            let mut samples = Vec::new();
            if let Ok(rd) = std::fs::read_dir(path) {
                for e in rd.filter_map(|e| e.ok()) {
                    if let Ok(b) = std::fs::read(e.path()) {
                        n += 1;
                        if nontrivial(id, &b) && seen.insert(hash_bytes(&b)) && samples.len() < 3 {
                            samples.push(json!({"len": b.len(), "head_hex": b.iter().take(48).map(|x| format!("{:02x}", x)).collect::<String>()}));
                        }
                    }
                }
            }
            println!("{}", json!({"files": n, "distinct_nontrivial": seen.len(), "samples": samples}));
            0
        }
    }
}
