//! Support for the libFuzzer campaigns of C04 / C06: seed corpus, artifact triage, corpus classification.

use crate::props::{c04, c06};
use crate::runner::{self, hash_bytes, Fail};
use proptest::collection::vec;
use serde_json::json;
use std::collections::HashSet;
use std::path::Path;

fn check(id: &str, bytes: &[u8]) -> Result<(), Fail> {
    let r = match id {
        "C04" => runner::guard(|| c04::check_bytes(bytes, true)),
        _ => runner::guard(|| c06::check_bytes(bytes)),
    };
    match r {
        Ok(r) => r,
        Err(p) => Err(Fail::new("panic:oracle-or-code", p)),
    }
}

fn nontrivial(id: &str, bytes: &[u8]) -> bool {
    match id {
        "C04" => c04::past_fixed_header(bytes),
        _ => bytes.len() < 24 || bytes.starts_with(b"AR2") || (bytes.len() >= 6 && &bytes[4..6] == b"BZ"),
    }
}

pub fn run(id: &str, cmd: &str, path: &Path, seed: u64) -> i32 {
    if id != "C04" && id != "C06" {
        eprintln!("fuzz support exists for C04 and C06 only");
        return 2;
    }
    match cmd {
        "corpus" => {
            if std::fs::create_dir_all(path).is_err() {
                return 2;
            }
            let mut files: Vec<Vec<u8>> = vec![Vec::new()];
            if id == "C04" {
                let valid = vec(crate::gen::msg(crate::gen::DrdOpts { small: true, ..crate::gen::DrdOpts::framing() }), 1..=3);
                for i in 0..24 {
                    let msgs = runner::draw(&valid, seed, "fuzz-corpus-valid", i);
                    files.push(crate::wire::encode_stream(&msgs).0);
                }
                for i in 0..40 {
                    let c = runner::draw(&c04::mut_case_strategy(), seed, "fuzz-corpus-mutated", i);
                    files.push(c04::apply(&c));
                }
            } else {
                for i in 0..16 {
                    let v = runner::draw(&c06::small_volume(), seed, "fuzz-corpus-volume", i);
                    let (bytes, _, _) = crate::props::c01::build_file(&v);
                    if bytes.len() > 60 {
                        files.push(bytes[..bytes.len() / 2].to_vec());
                    }
                    files.push(bytes);
                }
                let opts = crate::gen::DrdOpts { small: true, ..crate::gen::DrdOpts::framing() };
                for i in 0..12 {
                    let msgs = runner::draw(&vec(crate::gen::msg(opts), 0..=2), seed, "fuzz-corpus-chunk", i);
                    files.push(c06::base_bytes(&c06::Base::RecordChunk(msgs)).0);
                }
            }
            for (i, f) in files.iter().enumerate() {
                if f.len() <= 16_384 {
                    let _ = std::fs::write(path.join(format!("seed-{:03}", i)), f);
                }
            }
            println!("{} seed files written to {}", files.len(), path.display());
            0
        }
        "artifact" => {
            let bytes = match std::fs::read(path) {
                Ok(b) => b,
                Err(e) => {
                    eprintln!("cannot read {}: {}", path.display(), e);
                    return 2;
                }
            };
            match check(id, &bytes) {
                Ok(()) => {
                    println!("artifact {}: property holds on this input under the harness oracle", path.display());
                    0
                }
                Err(f) if f.sig.starts_with("inconclusive") => {
                    println!("INCONCLUSIVE property={} {}", id, f.detail);
                    2
                }
                Err(f) => {
                    let case = if id == "C04" { json!({"bytes": bytes}) } else { json!({"bytes": bytes}) };
                    let doc = json!({"property": id, "sub": "fuzz", "sig": f.sig, "detail": f.detail, "case": case});
                    let text = serde_json::to_string_pretty(&doc).unwrap_or_default();
                    let dir = runner::verif_root().join("work").join("replay");
                    let _ = std::fs::create_dir_all(&dir);
                    let out = dir.join(format!("{}-{:016x}.json", id, hash_bytes(text.as_bytes())));
                    let _ = std::fs::write(&out, text);
                    println!("VIOLATION property={} replay={}", id, out.display());
                    println!("  fuzz artifact {} [{}]: {}", path.display(), f.sig, runner::truncate(&f.detail, 1000));
                    1
                }
            }
        }
        _ => {
            let mut n = 0u64;
            let mut seen = HashSet::new();
            let mut samples = Vec::new();
            if let Ok(rd) = std::fs::read_dir(path) {
                for e in rd.filter_map(|e| e.ok()) {
                    if let Ok(b) = std::fs::read(e.path()) {
                        n += 1;
                        if nontrivial(id, &b) && seen.insert(hash_bytes(&b)) && samples.len() < 3 {
                            samples.push(json!({"len": b.len(), "head_hex": b.iter().take(48).map(|x| format!("{:02x}", x)).collect::<String>()}));
                        }
                    }
                }
            }
            println!("{}", json!({"files": n, "distinct_nontrivial": seen.len(), "samples": samples}));
            0
        }
    }
}
