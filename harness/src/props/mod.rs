use crate::runner::{Check, Ctx, Fail, Report};
use serde_json::Value;

pub mod c01;
pub mod c02;
pub mod c03;
pub mod c04;
pub mod c05;
pub mod c06;
pub mod c07;
pub mod c08;
pub mod c09;
pub mod c10;
pub mod c11;
pub mod c12;
pub mod c13;
pub mod c14;
pub mod c15;
pub mod c16;
pub mod c17;
pub mod c18;
pub mod c19;
pub mod fuzz_support;

pub struct Entry {
    pub id: &'static str,
    pub run: fn(&Ctx, &mut Report),
    pub replay: fn(&str, &Value) -> Check,
}

pub const ENTRIES: &[Entry] = &[
    Entry { id: "C01", run: c01::run, replay: c01::replay },
    Entry { id: "C02", run: c02::run, replay: c02::replay },
    Entry { id: "C03", run: c03::run, replay: c03::replay },
    Entry { id: "C04", run: c04::run, replay: c04::replay },
    Entry { id: "C05", run: c05::run, replay: c05::replay },
    Entry { id: "C06", run: c06::run, replay: c06::replay },
    Entry { id: "C07", run: c07::run, replay: c07::replay },
    Entry { id: "C08", run: c08::run, replay: c08::replay },
    Entry { id: "C09", run: c09::run, replay: c09::replay },
    Entry { id: "C10", run: c10::run, replay: c10::replay },
    Entry { id: "C11", run: c11::run, replay: c11::replay },
    Entry { id: "C12", run: c12::run, replay: c12::replay },
    Entry { id: "C13", run: c13::run, replay: c13::replay },
    Entry { id: "C14", run: c14::run, replay: c14::replay },
    Entry { id: "C15", run: c15::run, replay: c15::replay },
    Entry { id: "C16", run: c16::run, replay: c16::replay },
    Entry { id: "C17", run: c17::run, replay: c17::replay },
    Entry { id: "C18", run: c18::run, replay: c18::replay },
    Entry { id: "C19", run: c19::run, replay: c19::replay },
];

pub fn lookup(id: &str) -> Option<&'static Entry> {
    ENTRIES.iter().find(|e| e.id == id)
}

pub fn unknown_sub(sub: &str) -> Check {
    Err(Fail::new("replay-unknown-sub", format!("unknown sub-check '{}' in replay file", sub)))
}

/// Replays every committed regression input of this property (files /verif/replays/<ID>-*.json).
pub fn replay_committed(ctx: &Ctx, entry: &Entry, rep: &mut Report) {
    let dir = crate::runner::verif_root().join("replays");
    let mut files: Vec<_> = match std::fs::read_dir(&dir) {
        Ok(rd) => rd
            .filter_map(|e| e.ok())
            .map(|e| e.path())
            .filter(|p| {
                p.file_name()
                    .and_then(|n| n.to_str())
                    .map(|n| n.starts_with(&format!("{}-", ctx.id)) && n.ends_with(".json"))
                    .unwrap_or(false)
            })
            .collect(),
        Err(_) => return,
    };
    files.sort();
    let mut n = 0u64;
    for path in files {
        let (_, sub, case) = match crate::runner::load_replay(&path) {
            Ok(x) => x,
            Err(_) => continue,
        };
        n += 1;
        let outcome = match crate::runner::guard(|| (entry.replay)(&sub, &case)) {
            Ok(r) => r,
            Err(p) => Err(Fail::new("panic:oracle-or-code", p)),
        };
        if let Err(f) = outcome {
            if f.sig == "replay-format" || f.sig == "replay-unknown-sub" {
                rep.inconclusive.push(format!("committed replay {} unusable: {}", path.display(), f.detail));
                continue;
            }
            let mut f = f;
            f.detail = format!("committed regression input {} fails again: {}", path.display(), f.detail);
            rep.record_failure(&format!("regression:{}", sub), f, case);
        }
    }
    if n > 0 {
        rep.enumerated("regression-replays", "committed minimal reproductions of repaired or recorded defects, re-run first", n, 0, false);
    }
}
