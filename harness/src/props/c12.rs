//! C12  RDA status message: layout, coded fields, flags and alarm table.
//!
//! Documentation tiers (see DESIGN.md §4 C12): a code->meaning pair is *demanded* only where the
//! in-source field documentation is unambiguous; where the documented value and the documented bit
//! label disagree (data-transmission word, alarm summary, spot blanking "enabled") both readings are
//! admitted; spare and undocumented codes are not judged.

use crate::runner::{from_case, no_panic, CaseInfo, Check, Ctx, Fail, Report};
use crate::wire::{BodySpec, MsgHeaderSpec, MsgSpec, RdaSpec};
use crate::{ensure, ensure_eq};
use nexrad_decode::messages::rda_status_data::{self as rda, alarm};
use nexrad_decode::messages::{decode_messages, MessageContents};
use proptest::collection::vec;
use proptest::prelude::*;
use serde::{Deserialize, Serialize};
use serde_json::{json, Value};
use std::io::Cursor;

pub fn decode(spec: &RdaSpec) -> Result<rda::Message, Fail> {
    let bytes = spec.encode();
    rda::decode_rda_status_message(&mut &bytes[..]).map_err(|e| Fail::new("rda:decode-error", format!("{:?}", e)))
}

/// A message whose halfword `index` (1-based, ICD Table IV) is `raw` and every other halfword `fill`.
fn message_with(index: usize, raw: u16, fill: u16) -> Result<rda::Message, Fail> {
    let mut hw = vec![fill; 60];
    hw[index - 1] = raw;
    decode(&RdaSpec { hw })
}

/// Halfword-by-halfword layout comparison (shared with C03).
pub fn check_layout(s: &RdaSpec, m: &rda::Message) -> Check {
    let hw = |i: usize| s.hw[i - 1];
    ensure_eq!(m.rda_status, hw(1), "rda-layout:hw1:rda_status");
    ensure_eq!(m.operability_status, hw(2), "rda-layout:hw2:operability_status");
    ensure_eq!(m.control_status, hw(3), "rda-layout:hw3:control_status");
    ensure_eq!(m.auxiliary_power_generator_state, hw(4), "rda-layout:hw4:auxiliary_power_generator_state");
    ensure_eq!(m.average_transmitter_power, hw(5), "rda-layout:hw5:average_transmitter_power");
    ensure_eq!(m.horizontal_reflectivity_calibration_correction, hw(6), "rda-layout:hw6:horizontal_reflectivity_calibration_correction");
    ensure_eq!(m.data_transmission_enabled, hw(7), "rda-layout:hw7:data_transmission_enabled");
    ensure_eq!(m.volume_coverage_pattern, hw(8) as i16, "rda-layout:hw8:volume_coverage_pattern");
    ensure_eq!(m.rda_control_authorization, hw(9), "rda-layout:hw9:rda_control_authorization");
    ensure_eq!(m.rda_build_number, hw(10), "rda-layout:hw10:rda_build_number");
    ensure_eq!(m.operational_mode, hw(11), "rda-layout:hw11:operational_mode");
    ensure_eq!(m.super_resolution_status, hw(12), "rda-layout:hw12:super_resolution_status");
    ensure_eq!(m.clutter_mitigation_decision_status, hw(13), "rda-layout:hw13:clutter_mitigation_decision_status");
    ensure_eq!(m.rda_scan_and_data_flags, hw(14), "rda-layout:hw14:rda_scan_and_data_flags");
    ensure_eq!(m.rda_alarm_summary, hw(15), "rda-layout:hw15:rda_alarm_summary");
    ensure_eq!(m.command_acknowledgement, hw(16), "rda-layout:hw16:command_acknowledgement");
    ensure_eq!(m.channel_control_status, hw(17), "rda-layout:hw17:channel_control_status");
    ensure_eq!(m.spot_blanking_status, hw(18), "rda-layout:hw18:spot_blanking_status");
    ensure_eq!(m.bypass_map_generation_date, hw(19), "rda-layout:hw19:bypass_map_generation_date");
    ensure_eq!(m.bypass_map_generation_time, hw(20), "rda-layout:hw20:bypass_map_generation_time");
    ensure_eq!(m.clutter_filter_map_generation_date, hw(21), "rda-layout:hw21:clutter_filter_map_generation_date");
    ensure_eq!(m.clutter_filter_map_generation_time, hw(22), "rda-layout:hw22:clutter_filter_map_generation_time");
    ensure_eq!(m.vertical_reflectivity_calibration_correction, hw(23), "rda-layout:hw23:vertical_reflectivity_calibration_correction");
    ensure_eq!(m.transition_power_source_status, hw(24), "rda-layout:hw24:transition_power_source_status");
    ensure_eq!(m.rms_control_status, hw(25), "rda-layout:hw25:rms_control_status");
    ensure_eq!(m.performance_check_status, hw(26), "rda-layout:hw26:performance_check_status");
    for k in 0..14 {
        ensure_eq!(m.alarm_codes[k], hw(27 + k), "rda-layout:hw27-40:alarm_codes", "index {}", k);
    }
    ensure_eq!(m.signal_processor_options, hw(41), "rda-layout:hw41:signal_processor_options");
    for k in 0..18 {
        ensure_eq!(m.spares[k], hw(42 + k), "rda-layout:hw42-59:spares", "index {}", k);
    }
    ensure_eq!(m.status_version, hw(60), "rda-layout:hw60:status_version");
    Ok(())
}

fn expected_alarm_list(codes: &[u16]) -> Vec<u16> {
    codes.iter().copied().filter(|c| *c != 0 && *c <= 800).collect()
}

#[derive(Clone, Debug, Serialize, Deserialize)]
pub struct MsgCase {
    pub rda: RdaSpec,
    pub filler: Vec<u8>,
    pub header: MsgHeaderSpec,
}

pub fn check_message(c: &MsgCase) -> Check {
    ensure!(c.rda.hw.len() == 60, "replay-format", "need 60 halfwords");
    let m = no_panic("decode_rda_status_message", || decode(&c.rda))??;
    check_layout(&c.rda, &m)?;
    // the same bytes delivered in short reads must decode to the same message
    let raw = c.rda.encode();
    for step in crate::runner::CHUNK_STEPS {
        let mut r = crate::runner::Chunked::new(&raw, step);
        let mc = no_panic("decode_rda_status_message", || rda::decode_rda_status_message(&mut r))?
            .map_err(|e| Fail::new("rda:decode-error-short-reads", format!("reader delivering {} byte(s) per read: {:?}", step, e)))?;
        ensure!(mc == m, "rda-layout:depends-on-read-chunking", "message decoded from a reader delivering {} byte(s) per read differs from the slice decode", step);
    }
    // a reader positioned inside a larger source must give the same message
    {
        let lead = 1 + c.filler.len() % 29;
        let mut shifted = vec![0x7Eu8; lead];
        shifted.extend_from_slice(&raw);
        let mut cur = std::io::Cursor::new(&shifted[..]);
        cur.set_position(lead as u64);
        let mp = no_panic("decode_rda_status_message", || rda::decode_rda_status_message(&mut cur))?
            .map_err(|e| Fail::new("rda:decode-error-at-offset", format!("reader positioned {} bytes into its source: {:?}", lead, e)))?;
        ensure!(mp == m, "rda-layout:depends-on-reader-position", "message decoded from a reader positioned {} bytes into its source differs from the slice decode", lead);
    }
    // frame path
    let msg = MsgSpec { header: c.header.clone(), body: BodySpec::Rda(c.rda.clone(), c.filler.clone()) };
    let bytes = msg.encode();
    let decoded = no_panic("decode_messages", || decode_messages(&mut Cursor::new(&bytes[..])))?
        .map_err(|e| Fail::new("rda:wellformed-rejected", format!("frame decode failed: {:?}", e)))?;
    ensure_eq!(decoded.len(), 1, "rda:frame-message-count");
    match decoded[0].contents() {
        MessageContents::RDAStatusData(fm) => {
            check_layout(&c.rda, fm)?;
            ensure!(**fm == m, "rda:frame-vs-direct-differ", "frame path and direct path decode differently");
        }
        _ => return Err(Fail::new("rda:frame-wrong-contents", "type 2 frame did not decode as RDA status data")),
    }
    // alarm messages: definitions of the non-zero codes, in message order
    let codes: Vec<u16> = (27..=40).map(|i| c.rda.hw[i - 1]).collect();
    let listed = no_panic("alarm_messages", || m.alarm_messages())?;
    let got: Vec<u16> = listed.iter().map(|a| a.code()).collect();
    ensure_eq!(got, expected_alarm_list(&codes), "alarms:message-list", "codes {:?}", codes);
    for a in &listed {
        ensure!(alarm::get_alarm_message(a.code()).as_ref() == Some(a), "alarms:listed-definition-differs", "code {}", a.code());
    }
    // scaled values and VCP number of this message
    check_scaled(c.rda.hw[5], c.rda.hw[9], c.rda.hw[7], &m)?;
    Ok(())
}

fn close32(a: f32, b: f32) -> bool {
    a == b || (a - b).abs() <= 1e-6 * a.abs().max(b.abs())
}

fn check_scaled(hcal: u16, build: u16, vcp_raw: u16, m: &rda::Message) -> Check {
    let got = no_panic("horizontal_reflectivity_calibration_correction", || m.horizontal_reflectivity_calibration_correction())?;
    let unsigned = hcal as f32 / 100.0;
    let signed = (hcal as i16) as f32 / 100.0;
    ensure!(
        close32(got, unsigned) || (hcal >= 0x8000 && close32(got, signed)),
        "scaled:calibration-correction",
        "raw {}: got {} want {} (or {} read as two's complement)",
        hcal, got, unsigned, signed
    );
    let gotb = no_panic("rda_build_number", || m.rda_build_number())?;
    let b = build as f32;
    let want = if b / 100.0 > 2.0 { b / 100.0 } else { b / 10.0 };
    ensure!(close32(gotb, want), "scaled:build-number", "raw {}: got {} want {}", build, gotb, want);

    let v = vcp_raw as i16;
    if v == i16::MIN {
        return Ok(()); // magnitude unrepresentable in i16: excluded (counted by the caller)
    }
    let got = no_panic("volume_coverage_pattern", || {
        m.volume_coverage_pattern().map(|p| (p.number(), p.local(), p.remote()))
    })?;
    if v == 0 {
        ensure_eq!(got, None, "vcp-number:zero-is-none");
    } else {
        ensure_eq!(got, Some((v.abs(), v < 0, v > 0)), "vcp-number:magnitude-and-sign", "raw {}", v);
    }
    Ok(())
}

// ---------------------------------------------------------------------------------------------
// Coded fields: demanded (code, meaning) pairs.
// ---------------------------------------------------------------------------------------------

/// Evaluate an accessor on one code and return its Debug rendering.
fn meaning(index: usize, code: u16, f: impl Fn(&rda::Message) -> String) -> Result<String, Fail> {
    // the other 59 halfwords carry noise in one evaluation and zeros in another: the meaning of a coded field
    // must not depend on its neighbours
    let m = message_with(index, code, 0x5A5A ^ code.rotate_left(5))?;
    let a = no_panic(&format!("coded-accessor[hw{}]({})", index, code), || f(&m))?;
    let m0 = message_with(index, code, 0)?;
    let b = no_panic(&format!("coded-accessor[hw{}]({})", index, code), || f(&m0))?;
    if a != b {
        return Err(Fail::new(format!("coded-depends-on-other-fields:hw{}", index), format!("code {} means {} with noisy neighbours and {} with zero neighbours", code, a, b)));
    }
    Ok(a)
}

struct Coded {
    name: &'static str,
    index: usize,
    table: &'static [(u16, &'static str)],
    f: fn(&rda::Message) -> String,
}

const CODED: &[Coded] = &[
    Coded { name: "rda_status", index: 1, table: &[(2, "StartUp"), (4, "Standby"), (8, "Restart"), (16, "Operate")], f: |m| format!("{:?}", m.rda_status()) },
    Coded {
        name: "operability_status",
        index: 2,
        table: &[(2, "OnLine"), (4, "MaintenanceActionRequired"), (8, "MaintenanceActionMandatory"), (16, "CommandedShutDown"), (32, "Inoperable")],
        f: |m| format!("{:?}", m.operability_status()),
    },
    Coded { name: "control_status", index: 3, table: &[(2, "LocalControlOnly"), (4, "RemoteControlOnly"), (8, "EitherLocalOrRemoteControl")], f: |m| format!("{:?}", m.control_status()) },
    Coded {
        name: "auxiliary_power_generator_state",
        index: 4,
        table: &[(1, "SwitchedToAuxiliaryPower"), (2, "UtilityPowerAvailable"), (4, "GeneratorOn"), (8, "TransferSwitchSetToManual"), (16, "CommandedSwitchover")],
        f: |m| format!("{:?}", m.auxiliary_power_generator_state()),
    },
    Coded {
        name: "rda_control_authorization",
        index: 9,
        table: &[(0, "NoAction"), (2, "LocalControlRequested"), (4, "RemoteControlRequested")],
        f: |m| format!("{:?}", m.rda_control_authorization()),
    },
    Coded { name: "operational_mode", index: 11, table: &[(4, "Operational"), (8, "Maintenance")], f: |m| format!("{:?}", m.operational_mode()) },
    Coded { name: "super_resolution_status", index: 12, table: &[(2, "Enabled"), (4, "Disabled")], f: |m| format!("{:?}", m.super_resolution_status()) },
    Coded {
        name: "command_acknowledgement",
        index: 16,
        table: &[
            (0, "None"),
            (1, "Some(RemoteVCPReceived)"),
            (2, "Some(ClutterBypassMapReceived)"),
            (3, "Some(ClutterCensorZonesReceived)"),
            (4, "Some(RedundantChannelControlCommandAccepted)"),
        ],
        f: |m| format!("{:?}", m.command_acknowledgement()),
    },
    Coded {
        name: "controlling_channel",
        index: 17,
        // documented: 0 = controlling channel, 1 = non-controlling channel
        table: &[(0, "true"), (1, "false")],
        f: |m| format!("{:?}", m.controlling_channel()),
    },
    Coded {
        name: "transition_power_source_status",
        index: 24,
        table: &[(0, "NotInstalled"), (1, "Off"), (3, "OK"), (4, "Unknown")],
        f: |m| format!("{:?}", m.transition_power_source_status()),
    },
    Coded { name: "rms_control_status", index: 25, table: &[(0, "NonRMS"), (2, "RMSInControl"), (4, "RDAInControl")], f: |m| format!("{:?}", m.rms_control_status()) },
    Coded {
        name: "performance_check_status",
        index: 26,
        table: &[(0, "NoCommandPending"), (1, "ForcePerformanceCheckPending"), (2, "InProgress")],
        f: |m| format!("{:?}", m.performance_check_status()),
    },
    Coded {
        name: "clutter_mitigation_decision_status",
        index: 13,
        table: &[(0, "Disabled"), (1, "Enabled")],
        f: |m| format!("{:?}", m.clutter_mitigation_decision_status()),
    },
];

pub fn check_coded_tables() -> Vec<(Fail, Value)> {
    let mut fails = Vec::new();
    for c in CODED {
        let mut seen: Vec<String> = Vec::new();
        for (code, want) in c.table {
            match meaning(c.index, *code, c.f) {
                Ok(got) => {
                    if got != *want {
                        fails.push((
                            Fail::new(format!("coded:{}", c.name), format!("{}: code {} means {:?}, documented meaning is {}", c.name, code, got, want)),
                            json!({"accessor": c.name, "code": code}),
                        ));
                    }
                    if seen.contains(&got) {
                        fails.push((
                            Fail::new(format!("coded-not-distinct:{}", c.name), format!("{}: two documented codes give the same meaning {}", c.name, got)),
                            json!({"accessor": c.name, "code": code}),
                        ));
                    }
                    seen.push(got);
                }
                Err(f) => fails.push((
                    Fail::new(format!("coded:{}", c.name), format!("{}: documented code {}: {}", c.name, code, f.detail)),
                    json!({"accessor": c.name, "code": code}),
                )),
            }
        }
    }
    // spot blanking: 0 = not installed, 4 = disabled; "enabled" documented as value 1 / bit 1 (= 2 in the ICD): either is admitted
    let sb = |code: u16| meaning(18, code, |m| format!("{:?}", m.spot_blanking_status()));
    for (code, want) in [(0u16, "NotInstalled"), (4, "Disabled")] {
        match sb(code) {
            Ok(g) if g == want => {}
            Ok(g) => fails.push((Fail::new("coded:spot_blanking_status", format!("code {} means {}, documented {}", code, g, want)), json!({"accessor": "spot_blanking_status", "code": code}))),
            Err(f) => fails.push((Fail::new("coded:spot_blanking_status", f.detail), json!({"accessor": "spot_blanking_status", "code": code}))),
        }
    }
    let e1 = sb(1).map(|g| g == "Enabled").unwrap_or(false);
    let e2 = sb(2).map(|g| g == "Enabled").unwrap_or(false);
    if !(e1 || e2) {
        fails.push((
            Fail::new("coded:spot_blanking_status", "neither code 1 (documented value) nor code 2 (documented bit 1) means Enabled"),
            json!({"accessor": "spot_blanking_status", "code": 1}),
        ));
    }
    fails
}

/// Clutter mitigation decision status: elevation segment n <-> bit n for n = 1..=5.
pub fn check_cmd_bits(raw: u16) -> Check {
    let m = message_with(13, raw, 0xFFFF)?;
    let got = no_panic("clutter_mitigation_decision_status", || m.clutter_mitigation_decision_status())?;
    let want: Vec<u8> = (1..=5u8).filter(|n| raw & (1 << n) != 0).collect();
    match got {
        rda::ClutterMitigationDecisionStatus::Disabled => ensure!(raw == 0, "coded:cmd-status", "raw {:#x} reported Disabled", raw),
        rda::ClutterMitigationDecisionStatus::Enabled => ensure!(raw & 0x3E == 0 && raw & 1 == 1, "coded:cmd-status", "raw {:#x} reported plain Enabled although elevation bits are set", raw),
        rda::ClutterMitigationDecisionStatus::BypassMapElevationSegments(segs) => {
            // a reported 0 stands for bit 0 ("enabled"); it is not an elevation segment and is not judged
            let mut elev: Vec<u8> = segs.iter().copied().filter(|s| *s != 0).collect();
            elev.sort_unstable();
            ensure_eq!(elev, want, "coded:cmd-elevation-segments", "raw {:#b}", raw);
        }
    }
    Ok(())
}

// ---------------------------------------------------------------------------------------------
// Flag words: exhaustive one-bit analysis
// ---------------------------------------------------------------------------------------------

pub struct FlagWord {
    pub name: &'static str,
    pub index: usize,
    pub flags: &'static [(&'static str, fn(&rda::Message) -> bool)],
    /// admitted bit positions of the first flag; later flags follow consecutively (see `layout`)
    pub bases: &'static [u32],
    /// explicit bit offsets relative to the base for each flag
    pub layout: &'static [u32],
}

pub const FLAG_WORDS: &[FlagWord] = &[
    FlagWord {
        name: "data_transmission_enabled",
        index: 7,
        flags: &[
            ("none", |m| m.data_transmission_enabled().none()),
            ("reflectivity", |m| m.data_transmission_enabled().reflectivity()),
            ("velocity", |m| m.data_transmission_enabled().velocity()),
            ("spectrum_width", |m| m.data_transmission_enabled().spectrum_width()),
        ],
        bases: &[0, 1],
        layout: &[0, 1, 2, 3],
    },
    FlagWord {
        name: "rda_alarm_summary",
        index: 15,
        flags: &[
            ("tower_utilities", |m| m.rda_alarm_summary().tower_utilities()),
            ("pedestal", |m| m.rda_alarm_summary().pedestal()),
            ("transmitter", |m| m.rda_alarm_summary().transmitter()),
            ("receiver", |m| m.rda_alarm_summary().receiver()),
            ("rda_control", |m| m.rda_alarm_summary().rda_control()),
            ("communication", |m| m.rda_alarm_summary().communication()),
            ("signal_processor", |m| m.rda_alarm_summary().signal_processor()),
        ],
        bases: &[0, 1],
        layout: &[0, 1, 2, 3, 4, 5, 6],
    },
    FlagWord {
        // documented unambiguously: 8 (bit 3) EBC, 16 (bit 4) RDA log data, 32 (bit 5) time series
        name: "rda_scan_and_data_flags",
        index: 14,
        flags: &[
            ("ebc_enabled", |m| m.rda_scan_and_data_flags().ebc_enabled()),
            ("rda_log_data_enabled", |m| m.rda_scan_and_data_flags().rda_log_data_enabled()),
            ("time_series_data_recording_enabled", |m| m.rda_scan_and_data_flags().time_series_data_recording_enabled()),
        ],
        bases: &[3],
        layout: &[0, 1, 2],
    },
];

/// Returns, for one flag accessor, its truth table over all 2^16 raw values.
fn truth_table(index: usize, f: fn(&rda::Message) -> bool) -> Result<Vec<bool>, Fail> {
    let mut t = Vec::with_capacity(65_536);
    for raw in 0..=0xFFFFu32 {
        let m = message_with(index, raw as u16, !(raw as u16))?;
        t.push(no_panic("flag-accessor", || f(&m))?);
    }
    Ok(t)
}

fn single_bit_of(table: &[bool]) -> Result<u32, String> {
    let mut dep = Vec::new();
    for b in 0..16u32 {
        if (0..=0xFFFFusize).any(|raw| table[raw] != table[raw ^ (1 << b)]) {
            dep.push(b);
        }
    }
    if dep.len() != 1 {
        return Err(format!("depends on bits {:?} (must depend on exactly one)", dep));
    }
    let b = dep[0];
    if (0..=0xFFFFusize).all(|raw| table[raw] == ((raw >> b) & 1 == 1)) {
        Ok(b)
    } else {
        Err(format!("depends on bit {} but is not 'true iff the bit is set'", b))
    }
}

pub fn check_flag_words() -> (Vec<(Fail, Value)>, u64) {
    let mut fails = Vec::new();
    let mut evals = 0u64;
    for w in FLAG_WORDS {
        let mut bits = Vec::new();
        for (name, f) in w.flags {
            evals += 65_536;
            match truth_table(w.index, *f) {
                Ok(t) => match single_bit_of(&t) {
                    Ok(b) => bits.push(b),
                    Err(e) => fails.push((
                        Fail::new(format!("flag-bit:{}.{}", w.name, name), format!("{}.{} {}", w.name, name, e)),
                        json!({"word": w.name, "flag": name}),
                    )),
                },
                Err(f) => fails.push((Fail::new(format!("flag-bit:{}.{}", w.name, name), f.detail), json!({"word": w.name, "flag": name}))),
            }
        }
        if bits.len() == w.flags.len() {
            let ok = w.bases.iter().any(|base| bits.iter().zip(w.layout.iter()).all(|(b, off)| *b == base + off));
            if !ok {
                fails.push((
                    Fail::new(
                        format!("flag-order:{}", w.name),
                        format!(
                            "{}: accessors {:?} read bits {:?}; documented order requires consecutive bits starting at one of {:?}",
                            w.name,
                            w.flags.iter().map(|f| f.0).collect::<Vec<_>>(),
                            bits,
                            w.bases
                        ),
                    ),
                    json!({"word": w.name}),
                ));
            }
        }
    }
    // Summary::none <=> raw == 0
    evals += 65_536;
    for raw in 0..=0xFFFFu32 {
        match message_with(15, raw as u16, 0xFFFF).and_then(|m| no_panic("Summary::none", || m.rda_alarm_summary().none())) {
            Ok(n) => {
                if n != (raw == 0) {
                    fails.push((Fail::new("flag-bit:rda_alarm_summary.none", format!("Summary::none() = {} for raw {:#x}", n, raw)), json!({"word": "rda_alarm_summary", "raw": raw})));
                    break;
                }
            }
            Err(f) => {
                fails.push((f, json!({"word": "rda_alarm_summary", "raw": raw})));
                break;
            }
        }
    }
    // AVSET: documented 2 (bit 1) = enabled, 4 (bit 2) = disabled.  The accessor carries a debug_assert! that exactly
    // one of the two is set: with debug assertions it is evaluated on that documented domain; in a build without
    // them (cargo profile `nodebug`, run by the driver as well) it returns for every word and must depend on
    // exactly bit 1
    let whole_domain = !cfg!(debug_assertions);
    evals += if whole_domain { 65_536 } else { 32_768 };
    for raw in 0..=0xFFFFu32 {
        let raw = raw as u16;
        let (en, dis) = (raw & 0b010 != 0, raw & 0b100 != 0);
        if en == dis && !whole_domain {
            continue;
        }
        match message_with(14, raw, !raw).and_then(|m| no_panic("avset_enabled", || m.rda_scan_and_data_flags().avset_enabled())) {
            Ok(v) => {
                if v != en {
                    fails.push((
                        Fail::new("flag-bit:rda_scan_and_data_flags.avset_enabled", format!("avset_enabled() = {} for raw {:#b} (documented: 2 = enabled, 4 = disabled)", v, raw)),
                        json!({"word": "rda_scan_and_data_flags", "raw": raw}),
                    ));
                    break;
                }
            }
            Err(f) => {
                fails.push((
                    Fail::new("flag-bit:rda_scan_and_data_flags.avset_enabled", format!("raw {:#b} (documented: 2 = enabled, 4 = disabled): {}", raw, f.detail)),
                    json!({"word": "rda_scan_and_data_flags", "raw": raw}),
                ));
                break;
            }
        }
    }
    // channel control status (halfword 17): documented "0 (none) = controlling channel, 1 (bit 0) = non-controlling
    // channel", i.e. a flag in bit 0.  The bool accessor must be 'bit 0 clear' for every word, whatever the other
    // fifteen bits and the neighbouring halfwords hold
    evals += 65_536;
    for raw in 0..=0xFFFFu32 {
        let raw = raw as u16;
        match message_with(17, raw, !raw).and_then(|m| no_panic("controlling_channel", || m.controlling_channel())) {
            Ok(v) => {
                if v != (raw & 1 == 0) {
                    fails.push((
                        Fail::new("flag-bit:channel_control_status.controlling_channel", format!("controlling_channel() = {} for raw {:#x} (documented: bit 0 set = non-controlling channel)", v, raw)),
                        json!({"word": "channel_control_status", "raw": raw}),
                    ));
                    break;
                }
            }
            Err(f) => {
                fails.push((f, json!({"word": "channel_control_status", "raw": raw})));
                break;
            }
        }
    }
    (fails, evals)
}

pub fn check_alarm_lookup(code: u16) -> Check {
    let got = no_panic("get_alarm_message", || alarm::get_alarm_message(code))?;
    if code <= 800 {
        let m = got.ok_or_else(|| Fail::new("alarms:missing-definition", format!("no definition for alarm code {}", code)))?;
        ensure_eq!(m.code(), code, "alarms:definition-code-differs-from-key", "looked up {}", code);
        ensure!(!m.message().is_empty(), "alarms:empty-message", "code {}", code);
    } else {
        ensure!(got.is_none(), "alarms:definition-above-800", "code {} has a definition", code);
    }
    Ok(())
}

pub fn check_scaled_raw(raw: u16) -> Check {
    let mut hw = vec![!raw; 60];
    hw[5] = raw;
    hw[9] = raw;
    hw[7] = raw;
    let m = decode(&RdaSpec { hw })?;
    check_scaled(raw, raw, raw, &m)
}

pub fn run(ctx: &Ctx, rep: &mut Report) {
    rep.trust("independent wire encoder: halfword i of ICD Table IV at byte offset 2*(i-1), order as documented on the struct");
    rep.trust("code tables transcribed from the in-source field documentation (demanded pairs only where value and bit label agree)");
    rep.assume("admitted alternatives: flag base 0 or 1 for the data-transmission word and the alarm summary; spot blanking 'enabled' at code 1 or 2; two's-complement reading of the calibration correction for raw >= 0x8000; a 0 in the clutter-mitigation segment list (bit 0) is not judged");
    rep.assume("spare codes (rda_status 32/64) and undocumented codes are not judged; VCP number i16::MIN is excluded (magnitude unrepresentable)");

    // coded tables
    {
        let fails = check_coded_tables();
        let pairs: u64 = CODED.iter().map(|c| c.table.len() as u64).sum::<u64>() + 4;
        for (f, v) in fails {
            rep.record_failure("coded-fields", f, v);
        }
        rep.enumerated("coded-fields", "every documented (code, meaning) pair of the 14 coded accessors, plus pairwise distinctness", pairs, pairs, true);
        rep.sample("coded-fields", json!({"accessor": "rda_control_authorization", "code": 4}));
        let mut n = 0u64;
        for raw in 0..=0xFFFFu32 {
            n += 1;
            let r = crate::runner::guard(|| check_cmd_bits(raw as u16)).unwrap_or_else(|p| Err(Fail::new("panic:oracle-or-code", p)));
            if let Err(f) = r {
                rep.record_failure("cmd-status-bits", f, json!({"raw": raw}));
                break;
            }
        }
        rep.enumerated("cmd-status-bits", "all 65536 raw clutter-mitigation words: elevation n reported iff bit n set (n = 1..=5); non-trivial = at least one of bits 1..5 set", n, 65_536 - 2048, true);
        rep.sample("cmd-status-bits", json!({"raw": 0b100010}));
    }

    // flag words
    {
        let (fails, evals) = check_flag_words();
        for (f, v) in fails {
            rep.record_failure("flag-words", f, v);
        }
        rep.enumerated("flag-words", "exhaustive one-bit analysis: each of the 14 flag accessors over all 65536 raw words (other halfwords filled with the complement), Summary::none, AVSET on its documented domain", evals, evals / 2, true);
        rep.sample("flag-words", json!({"word": "rda_scan_and_data_flags", "raw": 0b101010}));
    }

    // alarm lookup + scaled values, exhaustive
    {
        let mut n = 0u64;
        for code in 0..=0xFFFFu32 {
            n += 1;
            let r = crate::runner::guard(|| check_alarm_lookup(code as u16)).unwrap_or_else(|p| Err(Fail::new("panic:oracle-or-code", p)));
            if let Err(f) = r {
                rep.record_failure("alarm-lookup", f, json!({"code": code}));
            }
        }
        rep.enumerated("alarm-lookup", "all 65536 alarm codes: 0..=800 carry their own code, nothing above; non-trivial = codes 0..=800", n, 801, true);
        rep.sample("alarm-lookup", json!({"code": 345}));
        let mut n = 0u64;
        let mut excluded = 0u64;
        for raw in 0..=0xFFFFu32 {
            n += 1;
            if raw as u16 as i16 == i16::MIN {
                excluded += 1;
            }
            let r = crate::runner::guard(|| check_scaled_raw(raw as u16)).unwrap_or_else(|p| Err(Fail::new("panic:oracle-or-code", p)));
            if let Err(f) = r {
                rep.record_failure("scaled-values", f, json!({"raw": raw}));
            }
        }
        rep.enumerated("scaled-values", "all 65536 raw values for calibration correction (raw/100), build number rule and VCP number sign/magnitude; non-trivial = raw >= 0x8000 or raw/100 straddling the build-number threshold", n, 32_768 + 200, true);
        rep.excluded("scaled-values", excluded);
        rep.sample("scaled-values", json!({"raw": 0x8001u16}));
    }

    rep.prop(
        "messages",
        "proptest: 60 arbitrary halfwords (alarm-code slots drawn from zeros, duplicates, valid codes and codes > 800), decoded directly and inside a frame: per-halfword layout, alarm list, scaled values; non-trivial = >= 3 non-zero alarm codes",
        ctx.tier.pick(1_500_000, 40_000_000),
        || {
            let alarm = prop_oneof![3 => Just(0u16), 4 => 1u16..=800, 1 => 801u16..=65535, 1 => Just(345u16)];
            (crate::gen::rda(), vec(alarm, 14), crate::gen::filler(), crate::gen::msg_header(2, None)).prop_map(|(mut rda, alarms, filler, header)| {
                for (k, a) in alarms.into_iter().enumerate() {
                    rda.hw[26 + k] = a;
                }
                MsgCase { rda, filler, header }
            })
        },
        |c| {
            let nz = (26..40).filter(|i| c.rda.hw[*i] != 0).count();
            CaseInfo::new(nz >= 3)
                .class(nz == 0, "no-alarms")
                .class((26..40).any(|i| c.rda.hw[i] > 800), "alarm-code-above-800")
                .class(c.rda.hw[7] as i16 == i16::MIN, "vcp-number-min-excluded")
        },
        check_message,
    );
}

pub fn replay(sub: &str, case: &Value) -> Check {
    let raw = |k: &str| case.get(k).and_then(|v| v.as_u64()).unwrap_or(0) as u16;
    match sub {
        "messages" => check_message(&from_case::<MsgCase>(case)?),
        "alarm-lookup" => check_alarm_lookup(raw("code")),
        "scaled-values" => check_scaled_raw(raw("raw")),
        "cmd-status-bits" => check_cmd_bits(raw("raw")),
        "coded-fields" => match check_coded_tables().into_iter().next() {
            Some((f, _)) => Err(f),
            None => Ok(()),
        },
        "flag-words" => match check_flag_words().0.into_iter().next() {
            Some((f, _)) => Err(f),
            None => Ok(()),
        },
        other => super::unknown_sub(other),
    }
}
