//! C14  Message summaries partition the message list and count it faithfully.

use crate::gen::{self, DrdOpts};
use crate::runner::{from_case, no_panic, CaseInfo, Check, Ctx, Fail, Report};
use crate::wire::*;
use crate::{ensure, ensure_eq};
use nexrad_decode::messages::{decode_messages, Message, MessageContents, MessageType};
use nexrad_decode::summarize;
use proptest::collection::vec;
use proptest::prelude::*;
use serde::{Deserialize, Serialize};
use serde_json::Value;
use std::collections::{BTreeMap, BTreeSet};
use std::io::Cursor;

#[derive(Clone, Debug, Serialize, Deserialize)]
pub enum Item {
    Radials { elevation: u8, count: u16, template: DrdSpec, timestamped: bool },
    Status { rda: RdaSpec, header: MsgHeaderSpec },
    Vcp { vcp: VcpSpec, header: MsgHeaderSpec },
    Other { header: MsgHeaderSpec, count: u8 },
}

#[derive(Clone, Debug, Serialize, Deserialize)]
pub struct ListCase {
    pub items: Vec<Item>,
    pub base_header: MsgHeaderSpec,
}

pub fn build_specs(c: &ListCase) -> Vec<MsgSpec> {
    let mut out = Vec::new();
    let mut serial = 0u32;
    for it in &c.items {
        match it {
            Item::Radials { elevation, count, template, timestamped } => {
                for i in 0..*count {
                    let mut d = template.clone();
                    d.header.elev_num = *elevation;
                    d.header.az_num = i % 720 + 1;
                    d.header.az_angle_bits = ((i % 720) as f32 * 0.5 + serial as f32 * 0.001).to_bits();
                    let mut h = c.base_header.clone();
                    h.mtype = 31;
                    h.seq = serial as u16;
                    if *timestamped {
                        h.date = h.date.max(1);
                        // times are NOT monotone within a run (a group's end time is its last member's time,
                        // not the latest time seen)
                        h.time = (h.time % 80_000_000 + (serial.wrapping_mul(2_654_435_761) >> 8) % 6_000_000) % 86_400_000;
                        if h.date == 1 && h.time == 0 {
                            h.time = 1;
                        }
                    } else {
                        h.date = 0;
                        h.time = 0;
                    }
                    serial += 1;
                    out.push(MsgSpec { header: h, body: BodySpec::Drd(Box::new(d)) });
                }
            }
            Item::Status { rda, header } => out.push(MsgSpec { header: header.clone(), body: BodySpec::Rda(rda.clone(), vec![0x5A]) }),
            Item::Vcp { vcp, header } => out.push(MsgSpec { header: header.clone(), body: BodySpec::Vcp(vcp.clone(), vec![0xA5]) }),
            Item::Other { header, count } => {
                for _ in 0..*count {
                    out.push(MsgSpec { header: header.clone(), body: BodySpec::Opaque(vec![0x11, 0x22]) });
                }
            }
        }
    }
    out
}

#[derive(Debug, Clone, PartialEq)]
enum Key {
    Radial(u8),
    Status,
    Vcp,
    Other(MessageType),
}

fn key_of(m: &Message) -> Key {
    match m.contents() {
        MessageContents::DigitalRadarData(d) => Key::Radial(d.header.elevation_number),
        MessageContents::RDAStatusData(_) => Key::Status,
        MessageContents::VolumeCoveragePattern(_) => Key::Vcp,
        _ => Key::Other(m.header().message_type()),
    }
}

/// Reference grouping evaluated on the decoded messages' public fields.
fn model_groups(msgs: &[Message]) -> Vec<(Key, usize, usize)> {
    let mut out: Vec<(Key, usize, usize)> = Vec::new();
    for (i, m) in msgs.iter().enumerate() {
        let k = key_of(m);
        let singleton = matches!(k, Key::Status | Key::Vcp);
        match out.last_mut() {
            Some((pk, _, end)) if !singleton && *pk == k => *end = i,
            _ => out.push((k, i, i)),
        }
    }
    out
}

pub fn check_summary(msgs: &[Message]) -> Check {
    let summary = no_panic("summarize::messages", || summarize::messages(msgs))?;
    // reuse: summarising the same list again gives an equal summary
    let second = no_panic("summarize::messages", || summarize::messages(msgs))?;
    ensure!(second == summary, "summary:second-call-differs", "summarising the same list twice gives different summaries");
    let model = model_groups(msgs);
    let groups = &summary.message_groups;

    // tiling of 0..n in order with no gap or overlap
    let mut next = 0usize;
    for (gi, g) in groups.iter().enumerate() {
        ensure_eq!(g.start_message_index, next, "tiling:gap-or-overlap", "group {} starts at {} but the previous ended at {}", gi, g.start_message_index, next as i64 - 1);
        ensure!(g.end_message_index >= g.start_message_index, "tiling:negative-span", "group {}", gi);
        ensure_eq!(g.message_count, g.end_message_index - g.start_message_index + 1, "count:message_count-vs-span", "group {}", gi);
        next = g.end_message_index + 1;
    }
    ensure_eq!(next, msgs.len(), "tiling:does-not-cover-all-messages", "{} messages, groups cover {}", msgs.len(), next);
    ensure_eq!(groups.len(), model.len(), "grouping:group-count", "{} messages", msgs.len());

    let mut seen_elevations: BTreeSet<u8> = BTreeSet::new();
    for (gi, (g, (key, a, b))) in groups.iter().zip(model.iter()).enumerate() {
        ensure_eq!(g.start_message_index, *a, "grouping:start-index", "group {}", gi);
        ensure_eq!(g.end_message_index, *b, "grouping:end-index", "group {}", gi);
        let first = &msgs[*a];
        let last = &msgs[*b];
        ensure_eq!(g.start_time, first.header().date_time(), "group:start_time", "group {}", gi);
        ensure_eq!(g.end_time, last.header().date_time(), "group:end_time", "group {}", gi);
        match key {
            Key::Radial(e) => {
                crate::ensure_same!(g.message_type, MessageType::RDADigitalRadarDataGenericFormat, "group:message_type", "group {}", gi);
                ensure_eq!(g.elevation_number, Some(*e), "group:elevation_number", "group {}", gi);
                ensure_eq!(g.is_continued, seen_elevations.contains(e), "group:is_continued", "group {} elevation {} (earlier elevations {:?})", gi, e, seen_elevations);
                seen_elevations.insert(*e);
                let (fd, ld) = match (first.contents(), last.contents()) {
                    (MessageContents::DigitalRadarData(f), MessageContents::DigitalRadarData(l)) => (f, l),
                    _ => return Err(Fail::new("oracle", "radial group without radial members")),
                };
                ensure_eq!(g.start_azimuth.map(f32::to_bits), Some(fd.header.azimuth_angle.to_bits()), "group:start_azimuth", "group {}", gi);
                ensure_eq!(g.end_azimuth.map(f32::to_bits), Some(ld.header.azimuth_angle.to_bits()), "group:end_azimuth", "group {}", gi);
                ensure_eq!(g.elevation_angle.map(f32::to_bits), Some(fd.header.elevation_angle.to_bits()), "group:elevation_angle", "group {}", gi);
                // per-group data-type counts
                let mut want: BTreeMap<&str, usize> = BTreeMap::new();
                for m in &msgs[*a..=*b] {
                    if let MessageContents::DigitalRadarData(d) = m.contents() {
                        let present = [
                            ("Reflectivity", d.reflectivity_data_block.is_some()),
                            ("Velocity", d.velocity_data_block.is_some()),
                            ("Spectrum Width", d.spectrum_width_data_block.is_some()),
                            ("Differential Reflectivity", d.differential_reflectivity_data_block.is_some()),
                            ("Differential Phase", d.differential_phase_data_block.is_some()),
                            ("Correlation Coefficient", d.correlation_coefficient_data_block.is_some()),
                            ("Specific Differential Phase", d.specific_diff_phase_data_block.is_some()),
                        ];
                        for (name, p) in present {
                            if p {
                                *want.entry(name).or_insert(0) += 1;
                            }
                        }
                    }
                }
                let got: BTreeMap<&str, usize> = g
                    .data_types
                    .as_ref()
                    .ok_or_else(|| Fail::new("group:data_types-missing", format!("radial group {} has no data-type map", gi)))?
                    .iter()
                    .map(|(k, v)| (k.as_str(), *v))
                    .collect();
                ensure_eq!(got, want, "group:data-type-counts", "group {}", gi);
                ensure!(g.rda_status_info.is_none() && g.vcp_info.is_none(), "group:foreign-info", "radial group {} carries status/VCP info", gi);
            }
            Key::Status => {
                crate::ensure_same!(g.message_type, MessageType::RDAStatusData, "group:message_type", "group {}", gi);
                ensure_eq!(g.message_count, 1, "grouping:status-not-alone", "group {}", gi);
                ensure!(!g.is_continued, "group:is_continued", "status group {} marked continued", gi);
                let info = g.rda_status_info.as_ref().ok_or_else(|| Fail::new("group:status-info-missing", format!("group {}", gi)))?;
                if let MessageContents::RDAStatusData(s) = first.contents() {
                    ensure_eq!(info.rda_status, format!("{:?}", s.rda_status()), "status-info:rda_status");
                    ensure_eq!(info.operability_status, format!("{:?}", s.operability_status()), "status-info:operability_status");
                    ensure_eq!(info.control_status, format!("{:?}", s.control_status()), "status-info:control_status");
                    ensure_eq!(info.operational_mode, format!("{:?}", s.operational_mode()), "status-info:operational_mode");
                    ensure_eq!(info.vcp_number, s.volume_coverage_pattern().map(|v| v.number()), "status-info:vcp_number");
                    ensure_eq!(info.vcp_is_local, s.volume_coverage_pattern().map(|v| v.local()).unwrap_or(false), "status-info:vcp_is_local");
                    ensure_eq!(info.average_transmitter_power, s.average_transmitter_power, "status-info:average_transmitter_power");
                    ensure_eq!(info.reflectivity_calibration.to_bits(), s.horizontal_reflectivity_calibration_correction().to_bits(), "status-info:reflectivity_calibration");
                    ensure_eq!(info.super_resolution_status, format!("{:?}", s.super_resolution_status()), "status-info:super_resolution_status");
                    ensure_eq!(info.has_alarms, !s.rda_alarm_summary().none(), "status-info:has_alarms");
                    let al = s.rda_alarm_summary();
                    let flags = [
                        ("Tower/utilities", al.tower_utilities()),
                        ("Pedestal", al.pedestal()),
                        ("Transmitter", al.transmitter()),
                        ("Receiver", al.receiver()),
                        ("RDA control", al.rda_control()),
                        ("Communication", al.communication()),
                        ("Signal processor", al.signal_processor()),
                    ];
                    let want: Vec<String> = flags.iter().filter(|f| f.1).map(|f| f.0.to_string()).collect();
                    ensure_eq!(info.active_alarms, want, "status-info:active_alarms");
                    let sf = s.rda_scan_and_data_flags();
                    ensure_eq!(info.scan_data_info.iter().any(|x| x == "AVSET enabled"), sf.avset_enabled(), "status-info:avset");
                    ensure_eq!(info.scan_data_info.iter().any(|x| x == "EBC enabled"), sf.ebc_enabled(), "status-info:ebc");
                }
            }
            Key::Vcp => {
                crate::ensure_same!(g.message_type, MessageType::RDAVolumeCoveragePattern, "group:message_type", "group {}", gi);
                ensure_eq!(g.message_count, 1, "grouping:vcp-not-alone", "group {}", gi);
                ensure!(!g.is_continued, "group:is_continued", "VCP group {} marked continued", gi);
                let info = g.vcp_info.as_ref().ok_or_else(|| Fail::new("group:vcp-info-missing", format!("group {}", gi)))?;
                if let MessageContents::VolumeCoveragePattern(v) = first.contents() {
                    ensure_eq!(info.pattern_number, v.header.pattern_number, "vcp-info:pattern_number");
                    ensure_eq!(info.version, v.header.version, "vcp-info:version");
                    ensure_eq!(info.number_of_elevation_cuts, v.header.number_of_elevation_cuts, "vcp-info:number_of_elevation_cuts");
                    ensure_eq!(info.elevations.len(), v.elevations.len(), "vcp-info:elevation-count");
                    ensure_eq!(info.pulse_width, format!("{:?}", v.header.pulse_width()), "vcp-info:pulse_width");
                    ensure_eq!(info.doppler_velocity_resolution, v.header.doppler_velocity_resolution_meters_per_second(), "vcp-info:doppler_velocity_resolution");
                    for (ei, (ie, e)) in info.elevations.iter().zip(v.elevations.iter()).enumerate() {
                        ensure_eq!(ie.elevation_angle.to_bits(), e.elevation_angle_degrees().to_bits(), "vcp-info:elevation_angle", "cut {}", ei);
                        ensure_eq!(ie.azimuth_rate.to_bits(), e.azimuth_rate_degrees_per_second().to_bits(), "vcp-info:azimuth_rate", "cut {}", ei);
                        ensure_eq!(ie.waveform_type, format!("{:?}", e.waveform_type()), "vcp-info:waveform_type", "cut {}", ei);
                        ensure_eq!(ie.channel_configuration, format!("{:?}", e.channel_configuration()), "vcp-info:channel_configuration", "cut {}", ei);
                        ensure_eq!(ie.super_resolution_features.iter().any(|f| f.starts_with("0.5")), e.super_resolution_control_half_degree_azimuth(), "vcp-info:super-resolution", "cut {}", ei);
                    }
                }
            }
            Key::Other(t) => {
                crate::ensure_same!(g.message_type, *t, "group:message_type", "group {}", gi);
                ensure!(!g.is_continued, "group:is_continued", "group {} of type {:?} marked continued", gi, t);
                ensure!(g.data_types.is_none() && g.rda_status_info.is_none() && g.vcp_info.is_none(), "group:foreign-info", "group {}", gi);
            }
        }
    }

    // collection-time range over timestamped radial and status messages
    let stamped: Vec<i64> = msgs
        .iter()
        .filter(|m| matches!(m.contents(), MessageContents::DigitalRadarData(_) | MessageContents::RDAStatusData(_)))
        .filter_map(|m| m.header().date_time().map(|d| d.timestamp_millis()))
        .filter(|t| *t > 0)
        .collect();
    if let (Some(min), Some(max)) = (stamped.iter().min(), stamped.iter().max()) {
        ensure_eq!(summary.earliest_collection_time.map(|d| d.timestamp_millis()), Some(*min), "time-range:earliest");
        ensure_eq!(summary.latest_collection_time.map(|d| d.timestamp_millis()), Some(*max), "time-range:latest");
    }

    // VCP set = patterns named by volume blocks
    let want: BTreeSet<String> = msgs
        .iter()
        .filter_map(|m| match m.contents() {
            MessageContents::DigitalRadarData(d) => d.volume_data_block.as_ref().map(|v| format!("VCP{}", v.volume_coverage_pattern_number)),
            _ => None,
        })
        .collect();
    let got: BTreeSet<String> = summary.volume_coverage_patterns.iter().map(|v| format!("{:?}", v)).collect();
    ensure_eq!(got, want, "vcp-set");
    Ok(())
}

pub fn check_list(c: &ListCase) -> Check {
    let specs = build_specs(c);
    let (stream, _) = encode_stream(&specs);
    let msgs = no_panic("decode_messages", || decode_messages(&mut Cursor::new(&stream[..])))?
        .map_err(|e| Fail::new("oracle:stream-rejected", format!("{:?}", e)))?;
    ensure_eq!(msgs.len(), specs.len(), "oracle:decode-count");
    check_summary(&msgs)
}

/// Status message with every coded field inside its documented domain.
pub fn in_domain_status() -> impl Strategy<Value = RdaSpec> {
    use proptest::sample::select;
    (
        gen::rda(),
        (select(vec![2u16, 4, 8, 16]), select(vec![2u16, 4, 8, 16, 32]), select(vec![2u16, 4, 8]), select(vec![1u16, 2, 4, 8, 16])),
        (any::<i16>().prop_filter("not MIN", |v| *v != i16::MIN), select(vec![0u16, 2, 4]), select(vec![4u16, 8]), select(vec![2u16, 4])),
        (select(vec![0b010u16, 0b100]), any::<u16>(), select(vec![0u16, 4]), select(vec![0u16, 1, 3, 4]), select(vec![0u16, 2, 4]), select(vec![0u16, 1, 2])),
    )
        .prop_map(|(mut r, (st, op, ctl, aux), (vcp, auth, mode, sres), (avset, flags_hi, spot, tps, rms, perf))| {
            r.hw[0] = st;
            r.hw[1] = op;
            r.hw[2] = ctl;
            r.hw[3] = aux;
            r.hw[7] = vcp as u16;
            r.hw[8] = auth;
            r.hw[10] = mode;
            r.hw[11] = sres;
            r.hw[13] = avset | (flags_hi & 0xFFF8);
            r.hw[17] = spot;
            r.hw[23] = tps;
            r.hw[24] = rms;
            r.hw[25] = perf;
            r
        })
}

fn item_strategy(max_run: u16) -> impl Strategy<Value = Item> {
    let opts = DrdOpts { small: true, known_vcp: true, ..DrdOpts::framing() };
    let elev = prop_oneof![6 => 1u8..=4, 2 => any::<u8>()];
    let count = prop_oneof![6 => 1u16..=4, 3 => 5u16..=20, 1 => 21u16..=max_run.max(22)];
    prop_oneof![
        6 => (elev, count, gen::drd(opts, Just(0u8).boxed(), None), prop_oneof![4 => Just(true), 1 => Just(false)])
            .prop_map(|(elevation, count, template, timestamped)| Item::Radials { elevation, count, template, timestamped }),
        2 => (in_domain_status(), prop_oneof![3 => gen::msg_header(2, Some(true)), 1 => gen::msg_header(2, Some(false))]).prop_map(|(rda, header)| Item::Status { rda, header }),
        2 => (gen::vcp(prop_oneof![0usize..=5, 6usize..=25].boxed()), gen::msg_header(5, None)).prop_map(|(vcp, header)| Item::Vcp { vcp, header }),
        3 => (prop_oneof![Just(3u8), Just(15), Just(18), Just(13), any::<u8>()].prop_filter("opaque type", |t| ![2u8, 5, 31].contains(t)), 1u8..=4)
            .prop_flat_map(|(t, count)| gen::msg_header(t, None).prop_map(move |header| Item::Other { header, count })),
    ]
}

pub fn classify(c: &ListCase) -> CaseInfo {
    // approximate the group structure from the items
    let mut groups = 0usize;
    let mut continued = false;
    let mut seen = BTreeSet::new();
    let mut last: Option<(u8, u8)> = None; // (kind, detail)
    let mut singleton = false;
    let mut total = 0usize;
    for it in &c.items {
        match it {
            Item::Radials { elevation, count, .. } => {
                total += *count as usize;
                if last != Some((0, *elevation)) {
                    groups += 1;
                    if !seen.insert(*elevation) {
                        continued = true;
                    }
                }
                last = Some((0, *elevation));
            }
            Item::Status { .. } | Item::Vcp { .. } => {
                total += 1;
                groups += 1;
                singleton = true;
                last = None;
            }
            Item::Other { header, count } => {
                total += *count as usize;
                if last != Some((1, header.mtype)) {
                    groups += 1;
                }
                last = Some((1, header.mtype));
            }
        }
    }
    CaseInfo::new(groups >= 3 && continued && singleton)
        .class(c.items.is_empty(), "empty-list")
        .class(continued, "continued-radial-group")
        .class(singleton, "status-or-vcp")
        .class(total > 200, "long-list")
        .class(c.items.windows(2).any(|w| matches!((&w[0], &w[1]), (Item::Status { .. }, Item::Status { .. }) | (Item::Vcp { .. }, Item::Vcp { .. }))), "adjacent-singletons")
        .class(c.items.iter().any(|i| matches!(i, Item::Radials { timestamped: false, .. })), "untimestamped-radials")
}

pub fn run(ctx: &Ctx, rep: &mut Report) {
    rep.trust("reference grouping model evaluated on the decoded messages' public fields (independent of decoder correctness)");
    rep.assume("lists are produced by encoding generated specs and decoding them with decode_messages (the only public constructor of Message)");
    rep.assume("coded fields stay inside their documented domains (six known VCP numbers, status codes from the C12 demanded table, AVSET enabled XOR disabled): the statement's precondition");
    rep.assume("info-struct fields are compared with the values the message accessors return (C12/C11 judge the accessors themselves)");

    let max_run = ctx.tier.pick(60u16, 200u16);
    rep.prop(
        "lists",
        "proptest: message lists of 0..500 messages composed of radial runs (any elevation pattern, any block subset), status, VCP and opaque-type messages, headers timestamped or zero; oracle = reference grouping / counting / time-range / VCP-set model; non-trivial = >= 3 groups with >= 1 continued radial group and >= 1 singleton status/VCP group",
        ctx.tier.pick(400_000, 6_000_000),
        move || {
            let n = prop_oneof![1 => Just(0usize), 2 => Just(1usize), 8 => 2usize..=8, 3 => 9usize..=24];
            (n.prop_flat_map(move |n| vec(item_strategy(max_run), n)), gen::msg_header(31, Some(true))).prop_map(|(items, base_header)| ListCase { items, base_header })
        },
        classify,
        check_list,
    );
    rep.require_class("lists", "continued-radial-group", 30);
    rep.require_class("lists", "adjacent-singletons", 10);
    rep.require_class("lists", "empty-list", 3);
}

pub fn replay(sub: &str, case: &Value) -> Check {
    match sub {
        "lists" => check_list(&from_case::<ListCase>(case)?),
        other => super::unknown_sub(other),
    }
}
