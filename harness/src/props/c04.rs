//! C04  Message decoding is total: arbitrary bytes give a value or an error.

use crate::alloc::measure;
use crate::gen::{self, DrdOpts};
use crate::runner::{from_case, guard, CaseInfo, Check, Ctx, Fail, Report};
use crate::wire::*;
use nexrad_decode::messages::clutter_filter_map::decode_clutter_filter_map;
use nexrad_decode::messages::digital_radar_data::decode_digital_radar_data;
use nexrad_decode::messages::rda_status_data::decode_rda_status_message;
use nexrad_decode::messages::volume_coverage_pattern::decode_volume_coverage_pattern;
use nexrad_decode::messages::{decode_message_contents, decode_message_header, decode_messages, MessageContents, MessageType};
use proptest::collection::vec;
use proptest::prelude::*;
use serde::{Deserialize, Serialize};
use serde_json::{json, Value};
use std::io::Cursor;
use std::sync::atomic::{AtomicU64, Ordering};
use std::time::Instant;

/// Memory bound: peak additional bytes of one decode call <= MEM_CONST + MEM_SLOPE * input length.
/// The constant covers what 8/16-bit count fields can request before the first failing read
/// (65535 x 4 B pointer table twice, one 65535 x 31 B gate buffer, with_capacity hints of the
/// clutter-map decoder), doubled; measured maximum on the repaired tree is reported in the evidence.
pub const MEM_CONST: usize = 16 << 20;
pub const MEM_SLOPE: usize = 64;
pub const SLOW_CALL_S: f64 = 20.0;

pub static MAX_PEAK: AtomicU64 = AtomicU64::new(0);
pub static MAX_CALL_US: AtomicU64 = AtomicU64::new(0);

fn all_types() -> Vec<MessageType> {
    let h = |code: u8| {
        let spec = MsgHeaderSpec { rpg: [0; 12], size: 0, channel: 0, mtype: code, seq: 0, date: 1, time: 0, seg_count: 0, seg_num: 0 };
        let b = spec.encode();
        decode_message_header(&mut &b[..]).map(|h| h.message_type()).unwrap_or(MessageType::Unknown(code))
    };
    (0..=255u8).map(h).collect()
}

/// Run one entry point under the three observers (panic, allocation, time).
fn observe<T>(what: &str, len: usize, f: impl FnOnce() -> T) -> Result<T, Fail> {
    crate::hang::label(what);
    let t0 = Instant::now();
    let (r, peak, largest) = measure(|| guard(f));
    let dt = t0.elapsed();
    MAX_PEAK.fetch_max(peak as u64, Ordering::Relaxed);
    MAX_CALL_US.fetch_max(dt.as_micros() as u64, Ordering::Relaxed);
    let out = r.map_err(|p| Fail::new(format!("panic:{}", what), format!("{} panicked on a {}-byte input: {}", what, len, p)))?;
    if peak > MEM_CONST + MEM_SLOPE * len {
        return Err(Fail::new(
            format!("memory:{}", what),
            format!("{} allocated {} bytes at peak (largest single allocation {}) for a {}-byte input; bound is {} + {}*len", what, peak, largest, len, MEM_CONST, MEM_SLOPE),
        ));
    }
    if dt.as_secs_f64() > SLOW_CALL_S {
        return Err(Fail::new("inconclusive:slow-call", format!("{} took {:.1} s on a {}-byte input", what, dt.as_secs_f64(), len)));
    }
    Ok(out)
}

/// The whole C04 oracle for one byte string.  `all_type_codes` additionally tries every type code.
pub fn check_bytes(b: &[u8], all_type_codes: bool) -> Check {
    crate::hang::enter(b);
    crate::journal::publish_bytes(b);
    let r = check_bytes_inner(b, all_type_codes);
    crate::hang::leave();
    crate::journal::clear();
    r
}

fn check_bytes_inner(b: &[u8], all_type_codes: bool) -> Check {
    let n = b.len();
    // message stream, then radial conversion of whatever decoded
    let msgs = observe("decode_messages", n, || decode_messages(&mut Cursor::new(b)))?;
    if let Ok(msgs) = msgs {
        for m in msgs {
            if let MessageContents::DigitalRadarData(d) = m.contents() {
                let _ = observe("Message::radial", n, || d.radial().map(|_| ()))?;
            }
            if let MessageContents::DigitalRadarData(d) = m.into_contents() {
                let _ = observe("Message::into_radial", n, || d.into_radial().map(|_| ()))?;
            }
        }
    }
    let _ = observe("decode_message_header", n, || decode_message_header(&mut &b[..]).map(|_| ()))?;
    // contents of any type
    let core = [
        MessageType::RDADigitalRadarDataGenericFormat,
        MessageType::RDAStatusData,
        MessageType::RDAVolumeCoveragePattern,
        MessageType::RDAClutterFilterMap,
        MessageType::RDADigitalRadarData,
        MessageType::Unknown(0),
        MessageType::Unknown(255),
    ];
    for t in core {
        let _ = observe("decode_message_contents", n, || decode_message_contents(&mut Cursor::new(b), t).map(|_| ()))?;
    }
    if all_type_codes {
        for t in all_types() {
            let _ = observe("decode_message_contents", n, || decode_message_contents(&mut Cursor::new(b), t).map(|_| ()))?;
        }
    }
    // type 31 directly, then both radial conversions
    let d = observe("decode_digital_radar_data", n, || decode_digital_radar_data(&mut Cursor::new(b)))?;
    if let Ok(d) = d {
        let _ = observe("Message::radial", n, || d.radial().map(|_| ()))?;
        let _ = observe("Message::into_radial", n, || d.into_radial().map(|_| ()))?;
    }
    let _ = observe("decode_rda_status_message", n, || decode_rda_status_message(&mut &b[..]).map(|_| ()))?;
    let _ = observe("decode_volume_coverage_pattern", n, || decode_volume_coverage_pattern(&mut &b[..]).map(|_| ()))?;
    let _ = observe("decode_clutter_filter_map", n, || decode_clutter_filter_map(&mut &b[..]).map(|_| ()))?;
    Ok(())
}

// ---------------------------------------------------------------------------------------------
// Structure-aware mutation
// ---------------------------------------------------------------------------------------------

#[derive(Clone, Debug, Serialize, Deserialize)]
pub enum Mutation {
    Truncate(u16),
    FlipBit(u16, u8),
    SetByte(u16, u8),
    /// copy `len` bytes from position a to position b
    Splice(u16, u16, u8),
    /// field-directed extreme applied to message `msg` (scaled index): (field, variant)
    Field { msg: u16, field: u8, variant: u8 },
    /// drop the 28-byte message header in front (so that the body is fed to the direct decoders)
    StripHeader,
    Append(Vec<u8>),
}

#[derive(Clone, Debug, Serialize, Deserialize)]
pub struct MutCase {
    pub msgs: Vec<MsgSpec>,
    pub mutations: Vec<Mutation>,
}

fn rd16(b: &[u8], o: usize) -> Option<u16> {
    b.get(o..o + 2).map(|s| ((s[0] as u16) << 8) | s[1] as u16)
}
fn rd32(b: &[u8], o: usize) -> Option<u32> {
    b.get(o..o + 4).map(|s| ((s[0] as u32) << 24) | ((s[1] as u32) << 16) | ((s[2] as u32) << 8) | s[3] as u32)
}
fn wr16(b: &mut [u8], o: usize, v: u16) {
    if o + 2 <= b.len() {
        put16(b, o, v);
    }
}
fn wr32(b: &mut [u8], o: usize, v: u32) {
    if o + 4 <= b.len() {
        put32(b, o, v);
    }
}

const U16_EXTREMES: [u16; 8] = [0, 1, 11, 52, 256, 0x7FFF, 0x8000, 0xFFFF];
const U32_EXTREMES: [u32; 8] = [0, 1, 31, 32, 0x7FFF_FFFF, 0x8000_0000, 0xFFFF_FFFE, 0xFFFF_FFFF];
const NAMES: [[u8; 3]; 8] = [*b"XXX", *b"   ", [0xFF, 0xFE, 0xFD], [0, 0, 0], *b"vol", *b"REF", *b"VOL", [0xC3, 0x28, 0x41]];

/// A complete type-31 message (with its 28-byte message header) whose `count` data block pointers all designate the
/// same REF block of `gates` 8-bit gates (every other pointer the VOL block, when `with_vol`).
pub fn duplicate_pointer_message(count: u16, gates: u16, with_vol: bool, seed: u64) -> Vec<u8> {
    let hdr = MsgHeaderSpec { rpg: [0; 12], size: 0xFFFF, channel: 8, mtype: 31, seq: 1, date: 20_000, time: 1000, seg_count: 0, seg_num: 0 };
    let d = DrdHeaderSpec { radar_id: *b"KTLX", time: 1000, date: 20_000, az_num: 1, az_angle_bits: 0, compression: 0, spare: 0, radial_length: 0, az_spacing: 1, status: 1, elev_num: 1, cut_sector: 0, elev_angle_bits: 0, spot: 0, az_index: 0 };
    let mut body = d.encode(count).to_vec();
    let table = body.len();
    body.resize(table + 4 * count as usize, 0);
    let vol_at = body.len();
    if with_vol {
        body.extend_from_slice(&VolSpec { id_type: b'R', lrtup: 52, major: 1, minor: 0, lat_bits: 0, lon_bits: 0, site_height: 0, feedhorn: 0, calib_bits: 0, htx_bits: 0, vtx_bits: 0, zdr_bits: 0, phi_bits: 0, vcp: 212, processing: 0, zdr_bias: 0, spare: [0; 6] }.encode());
    }
    let ref_at = body.len();
    let mut x = seed | 1;
    let data: Vec<u8> = (0..gates)
        .map(|_| {
            x ^= x << 13;
            x ^= x >> 7;
            x ^= x << 17;
            (x >> 24) as u8
        })
        .collect();
    body.extend_from_slice(&MomentSpec { id_type: b'D', reserved: 0, gates, range: 2125, interval: 250, tover: 50, snr: 16, ctrl: 0, word_size: 8, scale_bits: 2.0f32.to_bits(), offset_bits: 66.0f32.to_bits(), data }.encode(b"REF"));
    for k in 0..count as usize {
        let target = if with_vol && k % 2 == 1 { vol_at } else { ref_at };
        put32(&mut body, table + 4 * k, target as u32);
    }
    let mut out = hdr.encode().to_vec();
    out.extend_from_slice(&body);
    out
}

pub fn apply(c: &MutCase) -> Vec<u8> {
    let (mut bytes, bounds) = encode_stream(&c.msgs);
    for m in &c.mutations {
        let len = bytes.len();
        let at = |sel: u16| -> usize { (sel as usize * len.max(1)) >> 16 };
        match m {
            Mutation::Truncate(s) => {
                let k = at(*s);
                bytes.truncate(k);
            }
            Mutation::FlipBit(s, bit) => {
                if len > 0 {
                    let k = at(*s);
                    bytes[k] ^= 1 << (bit % 8);
                }
            }
            Mutation::SetByte(s, v) => {
                if len > 0 {
                    let k = at(*s);
                    bytes[k] = *v;
                }
            }
            Mutation::Splice(a, b, l) => {
                if len > 0 {
                    let (a, b) = (at(*a), at(*b));
                    let l = (*l as usize).min(len - a).min(len - b);
                    let chunk = bytes[a..a + l].to_vec();
                    bytes[b..b + l].copy_from_slice(&chunk);
                }
            }
            Mutation::StripHeader => {
                if bytes.len() >= 28 {
                    bytes.drain(0..28);
                }
            }
            Mutation::Append(extra) => bytes.extend_from_slice(extra),
            Mutation::Field { msg, field, variant } => {
                if bounds.len() < 2 {
                    continue;
                }
                let mi = ((*msg as usize) * (bounds.len() - 1)) >> 16;
                let start = bounds[mi];
                if start + 28 > bytes.len() {
                    continue;
                }
                let body = start + 28;
                let v = *variant as usize;
                match field % 14 {
                    0 => wr16(&mut bytes, start + 12, U16_EXTREMES[v % 8]),            // size field
                    1 => {
                        if start + 15 < bytes.len() {
                            bytes[start + 15] = [31u8, 2, 5, 15, 0, 255, 1, 29][v % 8]; // type code
                        }
                    }
                    2 => wr16(&mut bytes, start + 18, 0),                              // date 0
                    3 => wr16(&mut bytes, body + 30, [0u16, 1, 11, 65_535, 10, 9, 256, 1000][v % 8]), // block count
                    4 => {
                        // pointer k := extreme
                        let cnt = rd16(&bytes, body + 30).unwrap_or(0) as usize;
                        if cnt > 0 {
                            let k = v % cnt.min(10);
                            let msg_len = bounds[mi + 1] - body;
                            let ptrs: [u32; 8] = [0, 4, 32, (msg_len as u32).saturating_sub(1), msg_len as u32, msg_len as u32 + 1000, 0x8000_0000, u32::MAX];
                            wr32(&mut bytes, body + 32 + 4 * k, ptrs[(v / 3) % 8]);
                        }
                    }
                    5 => {
                        // two pointers equal / swapped (overlap, backwards)
                        let cnt = rd16(&bytes, body + 30).unwrap_or(0) as usize;
                        if cnt >= 2 {
                            let a = rd32(&bytes, body + 32).unwrap_or(0);
                            let b2 = rd32(&bytes, body + 36).unwrap_or(0);
                            if v % 2 == 0 {
                                wr32(&mut bytes, body + 36, a);
                            } else {
                                wr32(&mut bytes, body + 32, b2.wrapping_add(2));
                                wr32(&mut bytes, body + 36, a);
                            }
                        }
                    }
                    6 | 7 | 8 => {
                        // inside the block the k-th pointer designates: name / gates / word size
                        let cnt = rd16(&bytes, body + 30).unwrap_or(0) as usize;
                        if cnt > 0 {
                            let k = v % cnt.min(10);
                            if let Some(p) = rd32(&bytes, body + 32 + 4 * k) {
                                let blk = body + p as usize;
                                match field % 14 {
                                    6 => {
                                        if blk + 4 <= bytes.len() {
                                            bytes[blk + 1..blk + 4].copy_from_slice(&NAMES[(v / 2) % 8]);
                                        }
                                    }
                                    7 => wr16(&mut bytes, blk + 8, [65_535u16, 0, 1841, 32_768, 1, 2, 1840, 4096][(v / 2) % 8]),
                                    _ => {
                                        if blk + 19 < bytes.len() {
                                            bytes[blk + 19] = [0u8, 7, 9, 255, 16, 8, 1, 32][(v / 2) % 8];
                                        }
                                    }
                                }
                            }
                        }
                    }
                    9 => wr16(&mut bytes, body + 6, [52u16, 65_535, 51, 0, 1, 53, 1000, 32_768][v % 8]), // VCP cut count
                    10 => wr16(&mut bytes, body + 4, [256u16, 65_535, 255, 0, 1, 5, 257, 32_768][v % 8]), // CFM segment count
                    11 => wr16(&mut bytes, body + 6, [65_535u16, 21, 0, 32_768, 1, 2, 600, 1201][v % 8]), // CFM first zone count
                    12 => wr32(&mut bytes, body + 32, U32_EXTREMES[v % 8]),
                    _ => {
                        // control-flags byte (offset 18) of the block the k-th pointer designates, together with an
                        // unknown name: error paths that format the block must not trip over out-of-domain codes
                        let cnt = rd16(&bytes, body + 30).unwrap_or(0) as usize;
                        if cnt > 0 {
                            let k = v % cnt.min(10);
                            if let Some(p) = rd32(&bytes, body + 32 + 4 * k) {
                                let blk = body + p as usize;
                                if blk + 19 < bytes.len() {
                                    bytes[blk + 18] = [4u8, 255, 128, 9][(v / 2) % 4];
                                    if v % 2 == 0 {
                                        bytes[blk + 1..blk + 4].copy_from_slice(&NAMES[(v / 4) % 8]);
                                    }
                                }
                            }
                        }
                    }
                }
            }
        }
    }
    bytes
}

pub fn check_mut_case(c: &MutCase) -> Check {
    let bytes = apply(c);
    check_bytes(&bytes, false)
}

#[derive(Clone, Debug, Serialize, Deserialize)]
pub struct RawCase {
    pub bytes: Vec<u8>,
}

/// A deep, degenerate but well-formed structure, described compactly: `head`, then `unit` repeated `reps` times, then
/// `tail`. A declared count at an extreme is only *walked* by the decoder when enough well-formed filler follows it,
/// which neither mutation of small valid messages nor random bytes ever provide (hundreds of kilobytes of it).
#[derive(Clone, Debug, Serialize, Deserialize)]
pub struct DeepCase {
    pub what: String,
    pub head: Vec<u8>,
    pub unit: Vec<u8>,
    pub reps: u32,
    pub tail: Vec<u8>,
}

impl DeepCase {
    pub fn bytes(&self) -> Vec<u8> {
        let mut b = Vec::with_capacity(self.head.len() + self.unit.len() * self.reps as usize + self.tail.len());
        b.extend_from_slice(&self.head);
        for _ in 0..self.reps {
            b.extend_from_slice(&self.unit);
        }
        b.extend_from_slice(&self.tail);
        b
    }
}

/// The deep structures of one tier: clutter filter maps whose declared elevation-segment count (1..=65535) is backed by
/// that many complete segments (capped by size), VCP messages with up to 65535 complete cuts, streams of hundreds /
/// thousands of identical frames.
pub fn deep_cases(thorough: bool) -> Vec<DeepCase> {
    let mut out = Vec::new();
    // clutter filter map: 6-byte header (date, time, segment count), 360 azimuth segments per elevation segment
    let mut seg_counts: Vec<u32> = vec![5, 6, 127, 128, 129, 254, 255, 256, 257, 300, 511, 512, 513, 600];
    if thorough {
        seg_counts.extend(250..=262);
        seg_counts.extend([1023, 1024, 1025, 2047, 2048, 2049, 4095, 4096, 4097]);
    }
    for &segs in &seg_counts {
        for (name, azimuth) in [("no zones", vec![0u8, 0]), ("one zone", vec![0u8, 1, 0, 1, 0, 100])] {
            if azimuth.len() > 2 && segs > 600 {
                continue;
            }
            for declared in [segs, 0xFFFF] {
                let mut head = vec![0x4Eu8, 0x20, 0x02, 0x58];
                head.extend_from_slice(&(declared as u16).to_be_bytes());
                out.push(DeepCase {
                    what: format!("clutter filter map declaring {} elevation segments, {} complete ones present ({} per azimuth)", declared, segs, name),
                    head,
                    unit: azimuth.clone(),
                    reps: segs * 360,
                    tail: vec![0, 0, 0, 0],
                });
            }
        }
    }
    // VCP: 22-byte header, cut count at offset 6, 46-byte cuts
    for &cuts in if thorough { &[52u32, 255, 256, 257, 1000, 32767, 32768, 65535][..] } else { &[52u32, 255, 256, 257, 1000, 65535][..] } {
        let mut head = vec![0u8; 22];
        head[0..2].copy_from_slice(&((11 + 23 * cuts.min(2800)) as u16).to_be_bytes());
        head[2..4].copy_from_slice(&2u16.to_be_bytes());
        head[4..6].copy_from_slice(&212u16.to_be_bytes());
        head[6..8].copy_from_slice(&(cuts as u16).to_be_bytes());
        out.push(DeepCase { what: format!("VCP message with {} complete all-zero cuts", cuts), head, unit: vec![0u8; 46], reps: cuts, tail: vec![] });
    }
    // streams of many identical frames (type 2 = RDA status with an all-zero body, type 0 = opaque)
    for &(t, frames) in if thorough { &[(2u8, 300u32), (0, 1100), (2, 4200), (5, 700)][..] } else { &[(2u8, 300u32), (0, 1100)][..] } {
        let mut unit = vec![0u8; 2432];
        unit[12..14].copy_from_slice(&1208u16.to_be_bytes());
        unit[15] = t;
        unit[18..20].copy_from_slice(&20_000u16.to_be_bytes());
        unit[24..26].copy_from_slice(&1u16.to_be_bytes());
        unit[26..28].copy_from_slice(&1u16.to_be_bytes());
        out.push(DeepCase { what: format!("stream of {} identical type-{} frames", frames, t), head: vec![], unit, reps: frames, tail: vec![] });
    }
    out
}

/// Byte-inspection classifier: did some decoder get past its fixed header on this input?
pub fn past_fixed_header(b: &[u8]) -> bool {
    let drd_direct = rd16(b, 30).map(|c| c >= 1 && b.len() >= 32 + 4 * c as usize).unwrap_or(false);
    let vcp_direct = rd16(b, 6).map(|c| c >= 1 && b.len() >= 22 + 46).unwrap_or(false);
    let cfm_direct = rd16(b, 4).map(|c| (c as u8) >= 1 && b.len() >= 8).unwrap_or(false);
    let stream = b.len() >= 28 && ((b[15] == 31 && rd16(b, 58).map(|c| c >= 1 && b.len() >= 60 + 4 * c as usize).unwrap_or(false)) || (b[15] != 31 && b.len() >= 2432));
    drd_direct || vcp_direct || cfm_direct || stream
}

fn mutation_strategy() -> impl Strategy<Value = Mutation> {
    prop_oneof![
        3 => any::<u16>().prop_map(Mutation::Truncate),
        3 => (any::<u16>(), any::<u8>()).prop_map(|(a, b)| Mutation::FlipBit(a, b)),
        3 => (any::<u16>(), prop_oneof![any::<u8>(), Just(0u8), Just(255u8)]).prop_map(|(a, b)| Mutation::SetByte(a, b)),
        2 => (any::<u16>(), any::<u16>(), any::<u8>()).prop_map(|(a, b, l)| Mutation::Splice(a, b, l)),
        10 => (any::<u16>(), any::<u8>(), any::<u8>()).prop_map(|(msg, field, variant)| Mutation::Field { msg, field, variant }),
        1 => Just(Mutation::StripHeader),
        1 => vec(any::<u8>(), 0..=64).prop_map(Mutation::Append),
    ]
}

fn body_only_msg() -> impl Strategy<Value = MsgSpec> {
    // type-15 frames whose body is a clutter filter map, so that the CFM decoder sees structure after StripHeader
    (gen::cfm(prop_oneof![Just(0usize), Just(1usize), Just(2usize)].boxed()), gen::msg_header(15, None)).prop_map(|(c, header)| {
        let mut body = c.encode();
        body.truncate(2404);
        MsgSpec { header, body: BodySpec::Opaque(body) }
    })
}

pub fn mut_case_strategy() -> impl Strategy<Value = MutCase> {
    let opts = DrdOpts { small: true, contiguous: false, finite: false, ..DrdOpts::framing() };
    let msgs = prop_oneof![
        6 => vec(gen::msg(opts), 1..=4),
        3 => vec(gen::msg_of_type(31, DrdOpts::fidelity(), None), 1..=2),
        2 => vec(gen::msg_of_type(5, opts, None), 1..=2),
        2 => vec(gen::msg_of_type(2, opts, None), 1..=2),
        2 => vec(body_only_msg(), 1..=1),
    ];
    let muts = prop_oneof![
        6 => vec(mutation_strategy(), 1..=3),
        2 => vec(mutation_strategy(), 4..=8),
        2 => (any::<u16>(), any::<u8>(), any::<u8>()).prop_map(|(msg, field, variant)| vec![Mutation::StripHeader, Mutation::Field { msg, field, variant }]),
    ];
    (msgs, muts).prop_map(|(msgs, mutations)| MutCase { msgs, mutations })
}

pub fn run(ctx: &Ctx, rep: &mut Report) {
    rep.trust("observers: catch_unwind + panic hook, a counting global allocator with per-thread peak, a wall-clock timer per call");
    rep.assume(&format!("memory clause checked as peak additional bytes of one call <= {} + {} * input length (constant = twice what 16-bit count fields can request before the first failing read)", MEM_CONST, MEM_SLOPE));
    rep.assume("a call slower than 20 s is reported as inconclusive, never as a violation; termination is an observed bound, not a proof");
    rep.assume("accessor panics on out-of-domain codes (control_flags, redundant channel, status codes, hence some Debug impls) are outside the statement and are not exercised");

    // (b1) exhaustive lengths 0..=128: zeros, 0xFF, seeded random, every type code tried
    {
        let mut n = 0u64;
        let mut nt = 0u64;
        for len in 0..=128usize {
            for variant in 0..6u64 {
                let bytes: Vec<u8> = match variant {
                    0 => vec![0u8; len],
                    1 => vec![0xFFu8; len],
                    _ => {
                        let mut x = crate::runner::hash_bytes(format!("{}|c04-len|{}|{}", ctx.seed, len, variant).as_bytes()) | 1;
                        (0..len)
                            .map(|_| {
                                x ^= x << 13;
                                x ^= x >> 7;
                                x ^= x << 17;
                                (x >> 40) as u8
                            })
                            .collect()
                    }
                };
                n += 1;
                if past_fixed_header(&bytes) {
                    nt += 1;
                }
                if let Err(f) = check_bytes(&bytes, true) {
                    rep.record_failure("random-bytes", f, json!(RawCase { bytes }));
                }
            }
        }
        rep.enumerated("every-length-0-128", "every length 0..=128 x {zeros, 0xFF, 4 seeded random fills}, every one of the 256 type codes tried for the contents decoder; non-trivial = some decoder got past its fixed header (byte inspection)", n, nt, true);
        rep.sample("every-length-0-128", json!({"len": 60, "fill": "0xFF"}));
    }

    // (a) structure-aware mutation of valid streams
    rep.prop(
        "mutated-streams",
        "proptest: valid streams (1..4 messages of all kinds, type 31 with permuted/gapped layouts, type-15 frames carrying a clutter map) mutated by 1..8 operators {truncate, bit flip, byte set, splice, strip header, append, field-directed extremes: size field, type code, date 0, block count 0/1/11/65535, pointers 0/backwards/equal/past end/u32::MAX, unknown/non-UTF-8 block names, gates 65535, word size 0/7/9/255, VCP cut count 52/65535, CFM segment count 256/65535, zone count 65535}; every entry point observed; non-trivial = some decoder got past its fixed header",
        ctx.tier.pick(1_500_000, 8_000_000),
        mut_case_strategy,
        |c| {
            let b = apply(c);
            CaseInfo::new(past_fixed_header(&b))
                .class(c.mutations.iter().any(|m| matches!(m, Mutation::Field { .. })), "field-directed")
                .class(c.mutations.iter().any(|m| matches!(m, Mutation::Field { field, .. } if field % 14 == 6)), "block-name-mutated")
                .class(c.mutations.iter().any(|m| matches!(m, Mutation::Field { field, .. } if field % 14 == 4 || field % 14 == 5 || field % 14 == 12)), "pointer-mutated")
                .class(c.mutations.iter().any(|m| matches!(m, Mutation::Truncate(_))), "truncated")
                .class(c.mutations.iter().any(|m| matches!(m, Mutation::StripHeader)), "body-fed-to-direct-decoders")
        },
        check_mut_case,
    );
    rep.require_class("mutated-streams", "block-name-mutated", 100);
    rep.require_class("mutated-streams", "pointer-mutated", 100);

    // (a'') valid but wasteful layouts: a long pointer table whose entries all designate the same block(s).  Every pointer
    // is in range and every block well-formed, so decoding succeeds - the memory clause (constant + linear in the
    // input length) must hold although the declared structure is count x block size
    {
        let mut n = 0u64;
        for (count, gates, with_vol) in [(10u16, 65_535u16, false), (256, 65_535, false), (2_048, 65_535, false), (4_096, 8_000, true), (20_000, 1_840, false), (65_535, 1_840, true), (65_535, 0, false), (1_000, 65_535, true)] {
            let bytes = duplicate_pointer_message(count, gates, with_vol, ctx.seed);
            n += 1;
            if let Err(f) = check_bytes(&bytes, false) {
                rep.record_failure("random-bytes", f, json!(RawCase { bytes }));
            }
        }
        rep.enumerated("duplicate-pointers", "type-31 messages whose pointer table has 10..65535 entries all designating one well-formed moment block of 0..65535 gates (and optionally a VOL block): decoding succeeds, peak memory must stay within the bound", n, n, false);
        rep.sample("duplicate-pointers", json!({"pointers": 2048, "gates": 65535}));
    }

    // (a3) deep degenerate structures: an extreme declared count backed by enough well-formed filler to be walked
    {
        let cases = deep_cases(ctx.tier == crate::runner::Tier::Thorough);
        let mut n = 0u64;
        let mut total_bytes = 0u64;
        for c in &cases {
            let bytes = c.bytes();
            n += 1;
            total_bytes += bytes.len() as u64;
            if let Err(f) = check_bytes(&bytes, false) {
                rep.record_failure("deep-structures", f, json!(c));
            }
        }
        rep.enumerated(
            "deep-structures",
            "deep but well-formed structures, described as head + unit x reps + tail: clutter filter maps declaring 5..=4097 (and 65535) elevation segments with that many complete ones present (no zones / one zone per azimuth), VCP messages with 52..=65535 complete all-zero cuts, streams of 300..4200 identical frames; every decode entry point, no panic, memory bound",
            n,
            n,
            false,
        );
        rep.sample("deep-structures", json!({"what": cases.first().map(|c| c.what.clone()), "cases": n, "bytes_decoded": total_bytes}));
    }

    // (a') every prefix of a few small valid streams
    {
        let strat = vec(gen::msg(DrdOpts { small: true, ..DrdOpts::framing() }), 2..=3);
        let mut n = 0u64;
        let mut nt = 0u64;
        for i in 0..ctx.tier.pick(2usize, 12usize) {
            let msgs = crate::runner::draw(&strat, ctx.seed, "c04-prefixes", i);
            let (bytes, _) = encode_stream(&msgs);
            for cut in 0..=bytes.len() {
                n += 1;
                if past_fixed_header(&bytes[..cut]) {
                    nt += 1;
                }
                if let Err(f) = check_bytes(&bytes[..cut], false) {
                    rep.record_failure("random-bytes", f, json!(RawCase { bytes: bytes[..cut].to_vec() }));
                    break;
                }
            }
        }
        rep.enumerated("every-prefix", "every prefix of seeded valid 2..3-message streams", n, nt, true);
        rep.sample("every-prefix", json!({"messages": 3}));
    }

    // (b2) uniformly random bytes, sampled lengths to 8 KiB
    rep.prop(
        "random-bytes",
        "proptest: uniformly random bytes with lengths sampled from 0..=8192 (short lengths boosted), plus buffers whose first 64 bytes are random and the rest a constant; non-trivial = some decoder got past its fixed header",
        ctx.tier.pick(500_000, 3_000_000),
        || {
            let len = prop_oneof![4 => 0usize..=200, 3 => 200usize..=2500, 1 => 2500usize..=8192];
            len.prop_flat_map(|n| (vec(any::<u8>(), n.min(96)), any::<u64>(), any::<bool>(), Just(n))).prop_map(|(head, seed, constant_tail, n)| {
                let mut bytes = head;
                let mut x = seed | 1;
                while bytes.len() < n {
                    x ^= x << 13;
                    x ^= x >> 7;
                    x ^= x << 17;
                    bytes.push(if constant_tail { 0x20 } else { (x >> 24) as u8 });
                }
                RawCase { bytes }
            })
        },
        |c| CaseInfo::new(past_fixed_header(&c.bytes)).class(c.bytes.len() >= 2432, "at-least-one-frame").class(c.bytes.len() < 28, "shorter-than-header"),
        |c| check_bytes(&c.bytes, false),
    );

    rep.extra.insert("max_peak_bytes_observed".into(), json!(MAX_PEAK.load(Ordering::Relaxed)));
    rep.extra.insert("max_call_microseconds_observed".into(), json!(MAX_CALL_US.load(Ordering::Relaxed)));
    rep.extra.insert("memory_bound".into(), json!(format!("{} + {} * len", MEM_CONST, MEM_SLOPE)));
    // slow calls are inconclusive, not violations
    let slow: Vec<_> = rep.violations.iter().filter(|v| v.sig == "inconclusive:slow-call").map(|v| v.detail.clone()).collect();
    if !slow.is_empty() {
        rep.violations.retain(|v| v.sig != "inconclusive:slow-call");
        for s in slow {
            rep.inconclusive.push(s);
        }
    }
}

pub fn replay(sub: &str, case: &Value) -> Check {
    let r = match sub {
        "mutated-streams" => check_mut_case(&from_case::<MutCase>(case)?),
        "deep-structures" => check_bytes(&from_case::<DeepCase>(case)?.bytes(), true),
        "random-bytes" | "every-length-0-128" | "every-prefix" | "fuzz" | "nontermination" => check_bytes(&from_case::<RawCase>(case)?.bytes, true),
        other => return super::unknown_sub(other),
    };
    match r {
        Err(f) if f.sig == "inconclusive:slow-call" => Err(Fail::new("replay-format", f.detail)),
        other => other,
    }
}
