//! C09  Sweep grouping and merging conserve radials.

use crate::model::runs;
use crate::runner::{from_case, no_panic, CaseInfo, Check, Ctx, Fail, Report};
use crate::{ensure, ensure_eq};
use nexrad_model::data::{MomentData, Radial, RadialStatus, Sweep};
use proptest::collection::vec;
use proptest::prelude::*;
use serde::{Deserialize, Serialize};
use serde_json::{json, Value};

#[derive(Clone, Debug, Serialize, Deserialize)]
pub struct SeqCase {
    /// (elevation number, run length) pairs; adjacent pairs may carry the same number
    pub runs: Vec<(u8, u16)>,
    /// identity mode of the generated radials (see `salted_radial`)
    #[serde(default)]
    pub mode: u8,
}

impl SeqCase {
    pub fn expand(&self) -> Vec<u8> {
        let mut v = Vec::new();
        for (e, n) in &self.runs {
            for _ in 0..*n {
                if v.len() >= 2000 {
                    return v;
                }
                v.push(*e);
            }
        }
        v
    }
}

/// A radial whose identity is its tag (collection timestamp); other fields vary with the tag so
/// that an altered radial is visible to `PartialEq`.
pub fn tagged_radial(tag: i64, elevation: u8, azimuth_number: u16) -> Radial {
    let status = match tag % 6 {
        0 => RadialStatus::ElevationStart,
        1 => RadialStatus::IntermediateRadialData,
        2 => RadialStatus::ElevationEnd,
        3 => RadialStatus::VolumeScanStart,
        4 => RadialStatus::VolumeScanEnd,
        _ => RadialStatus::ElevationStartVCPFinal,
    };
    let moment = |k: i64| {
        if (tag + k) % 3 == 0 {
            Some(MomentData::from_fixed_point(2.0, 66.0, vec![(tag % 251) as u8, k as u8, 0, 1]))
        } else {
            None
        }
    };
    Radial::new(
        tag,
        azimuth_number,
        (tag % 720) as f32 * 0.5,
        0.5,
        status,
        elevation,
        elevation as f32 * 0.25,
        moment(0),
        moment(1),
        moment(2),
        moment(3),
        moment(4),
        moment(5),
        moment(6),
    )
}

/// A radial for identity mode `mode`.  Which field makes a radial distinct from every other one rotates
/// with the mode, and the remaining fields collide often, so that code keyed on any *proper subset* of the
/// fields (e.g. azimuth number + timestamp) is confronted with distinct radials that agree on that subset:
///   0  timestamp = tag (all other fields derived from it)
///   1  timestamp constant; azimuth angle is the distinguishing field
///   2  timestamp in {0,1}, azimuth angle in three values; elevation angle distinguishes
///   3  timestamp in {0,1}, both angles constant; the reflectivity gate bytes distinguish
///   4  timestamp constant, angles constant, no moments; azimuth spacing distinguishes
pub fn salted_radial(tag: i64, elevation: u8, azimuth_number: u16, mode: u8) -> Radial {
    let salt = f32::from_bits(0x4000_0000 + tag as u32); // distinct finite floats
    let status = if tag % 2 == 0 { RadialStatus::IntermediateRadialData } else { RadialStatus::ElevationStart };
    match mode % 5 {
        0 => tagged_radial(tag, elevation, azimuth_number),
        1 => Radial::new(1_700_000_000_000, azimuth_number, salt, 0.5, status, elevation, 0.5, None, None, None, None, None, None, None),
        2 => Radial::new(tag % 2, azimuth_number, (tag % 3) as f32 * 0.5, 0.5, status, elevation, salt, None, None, None, None, None, None, None),
        3 => Radial::new(
            tag % 2,
            azimuth_number,
            1.5,
            0.5,
            status,
            elevation,
            0.5,
            Some(MomentData::from_fixed_point(2.0, 66.0, (tag as u32).to_le_bytes().to_vec())),
            None,
            None,
            None,
            None,
            None,
            None,
        ),
        _ => Radial::new(1_700_000_000_000, azimuth_number, 1.5, salt, RadialStatus::IntermediateRadialData, elevation, 0.5, None, None, None, None, None, None, None),
    }
}

/// Accessor-level fingerprint of a radial, independent of the type's own `PartialEq` / `Debug` implementations.
pub fn fingerprint(r: &Radial) -> Vec<u64> {
    let mut v = vec![
        r.collection_timestamp() as u64,
        r.azimuth_number() as u64,
        r.azimuth_angle_degrees().to_bits() as u64,
        r.azimuth_spacing_degrees().to_bits() as u64,
        r.elevation_number() as u64,
        r.elevation_angle_degrees().to_bits() as u64,
        crate::runner::hash_bytes(format!("{:?}", r.radial_status()).as_bytes()),
    ];
    for m in [r.reflectivity(), r.velocity(), r.spectrum_width(), r.differential_reflectivity(), r.differential_phase(), r.correlation_coefficient(), r.specific_differential_phase()] {
        match m {
            None => v.push(u64::MAX),
            Some(md) => {
                let vals = md.values();
                v.push(vals.len() as u64);
                for x in vals {
                    v.push(match x {
                        nexrad_model::data::MomentValue::Value(f) => f.to_bits() as u64,
                        nexrad_model::data::MomentValue::BelowThreshold => 1 << 40,
                        nexrad_model::data::MomentValue::RangeFolded => 2 << 40,
                    });
                }
            }
        }
    }
    v
}

/// Whole-value comparison: the type's `==` and (for small cases always, otherwise for a quarter of the cases) the
/// accessor fingerprint, so that a hand-written `PartialEq` that ignores a field cannot hide an altered radial.
fn same_radial(a: &Radial, b: &Radial, deep: bool) -> bool {
    a == b && (!deep || fingerprint(a) == fingerprint(b))
}

pub fn check_grouping(case: &SeqCase) -> Check {
    let elevs = case.expand();
    let input: Vec<Radial> = elevs
        .iter()
        .enumerate()
        .map(|(i, e)| salted_radial(i as i64, *e, if case.mode % 5 == 0 { (i % 720) as u16 } else { (i % 4) as u16 }, case.mode))
        .collect();
    let reference = input.clone();
    let sweeps = no_panic("Sweep::from_radials", || Sweep::from_radials(input))?;

    if elevs.is_empty() {
        ensure!(sweeps.is_empty(), "grouping:empty-input-gives-sweeps", "empty input produced {} sweeps", sweeps.len());
        return Ok(());
    }
    ensure!(!sweeps.is_empty(), "grouping:no-sweep-for-nonempty-input", "{} radials produced no sweep", elevs.len());

    // concatenation equals the input, in order, unaltered
    let mut flat: Vec<&Radial> = Vec::new();
    for (si, s) in sweeps.iter().enumerate() {
        ensure!(!s.radials().is_empty(), "grouping:empty-sweep", "sweep {} is empty", si);
        for r in s.radials() {
            ensure_eq!(
                r.elevation_number(),
                s.elevation_number(),
                "grouping:sweep-label-differs-from-radial",
                "sweep {}", si
            );
            flat.push(r);
        }
    }
    if flat.len() != reference.len() {
        let first_missing = reference.iter().position(|w| !flat.iter().any(|g| *g == w)).map(|i| i as i64).unwrap_or(-1);
        return Err(Fail::new(
            "grouping:concatenation-differs",
            format!("{} radials in, {} out (identity mode {}): first input radial not found in the output: index {}", reference.len(), flat.len(), case.mode % 5, first_missing),
        ));
    }
    let deep = reference.len() <= 8 || (reference.len() + case.runs.len()) % 4 == 0;
    for (i, (g, w)) in flat.iter().zip(reference.iter()).enumerate() {
        if !same_radial(g, w, deep) {
            let moved = reference.iter().any(|x| *g == x);
            let sig = if moved { "grouping:concatenation-differs" } else { "grouping:radial-altered" };
            return Err(Fail::new(sig, format!("output radial {} is not input radial {} (identity mode {}; {})", i, i, case.mode % 5, if moved { "it is another input radial: order/duplication differs" } else { "it equals no input radial" })));
        }
    }

    // maximal runs: adjacent sweeps differ, and the partition equals the run-length model
    let model = runs(&elevs);
    for w in sweeps.windows(2) {
        ensure!(
            w[0].elevation_number() != w[1].elevation_number(),
            "grouping:adjacent-sweeps-equal",
            "two adjacent sweeps both carry elevation {}",
            w[0].elevation_number()
        );
    }
    ensure_eq!(sweeps.len(), model.len(), "grouping:sweep-count");
    for (s, (e, a, b)) in sweeps.iter().zip(model.iter()) {
        ensure_eq!(s.elevation_number(), *e, "grouping:sweep-number");
        ensure_eq!(s.radials().len(), b - a, "grouping:sweep-length");
    }
    Ok(())
}

#[derive(Clone, Debug, Serialize, Deserialize)]
pub struct MergeCase {
    pub elev_a: u8,
    pub elev_b: u8,
    pub az_a: Vec<u16>,
    pub az_b: Vec<u16>,
    /// identity mode of the generated radials (see `salted_radial`)
    #[serde(default)]
    pub mode: u8,
    /// invisible state of the operands: bit 0 = the first sweep's radial vector has spare capacity for the union,
    /// bit 1 = the second one has (capacity is not part of a value, so the result must not depend on it)
    #[serde(default)]
    pub spare: u8,
    /// the radials' own elevation numbers: 0 = equal to their sweep's label; 1 = the second sweep's radials carry
    /// label + 1; 2 = every radial carries its own number (derived from its position). The statement speaks of the
    /// *sweeps'* elevation numbers only - what the radials inside say about themselves does not decide a merge.
    #[serde(default)]
    pub radial_elevations: u8,
}

pub fn check_merge(case: &MergeCase) -> Check {
    let mk = |base: i64, elev: u8, az: &[u16]| -> Vec<Radial> {
        az.iter()
            .enumerate()
            .map(|(i, a)| {
                let own = match case.radial_elevations % 3 {
                    0 => elev,
                    1 => if base == 0 { elev } else { elev.wrapping_add(1) },
                    _ => elev.wrapping_add((i as u8).wrapping_mul(7)).wrapping_add((base != 0) as u8),
                };
                salted_radial(base + i as i64, own, *a, case.mode)
            })
            .collect()
    };
    let with_capacity = |v: Vec<Radial>, spare: bool| -> Vec<Radial> {
        if !spare {
            return v;
        }
        let mut w = Vec::with_capacity(case.az_a.len() + case.az_b.len() + 720);
        w.extend(v);
        w
    };
    let ra = with_capacity(mk(0, case.elev_a, &case.az_a), case.spare & 1 != 0);
    let rb = with_capacity(mk(1_000_000, case.elev_b, &case.az_b), case.spare & 2 != 0);
    let mut expected: Vec<Radial> = ra.iter().cloned().chain(rb.iter().cloned()).collect();
    expected.sort_by_key(|r| r.azimuth_number()); // std stable sort = ties keep first-then-second order
    let a = Sweep::new(case.elev_a, ra);
    let b = Sweep::new(case.elev_b, rb);
    // clones of the operands (for small cases): merging the clones must give the same sweep
    let clones = if case.az_a.len() + case.az_b.len() <= 24 { Some((a.clone(), b.clone())) } else { None };
    let merged = no_panic("Sweep::merge", || a.merge(b))?;
    if let (Some((ca, cb)), Ok(m)) = (clones, &merged) {
        let again = no_panic("Sweep::merge", || ca.merge(cb))?.map_err(|e| Fail::new("merge:clones-rejected", format!("{:?}", e)))?;
        ensure!(
            again.elevation_number() == m.elevation_number() && again.radials().len() == m.radials().len() && again.radials().iter().zip(m.radials().iter()).all(|(x, y)| same_radial(x, y, true)),
            "merge:clones-merge-differently",
            "merging clones of the two sweeps gives a different sweep than merging the originals"
        );
    }
    if case.elev_a != case.elev_b {
        ensure!(merged.is_err(), "merge:mismatch-not-rejected", "elevations {} and {} merged without error", case.elev_a, case.elev_b);
        return Ok(());
    }
    let merged = match merged {
        Ok(m) => m,
        Err(e) => return Err(Fail::new("merge:equal-elevations-rejected", format!("{:?}", e))),
    };
    ensure_eq!(merged.elevation_number(), case.elev_a, "merge:elevation-number");
    let got = merged.radials();
    let deep = expected.len() <= 8 || (case.az_a.len() + 3 * case.az_b.len()) % 4 == 0;
    if got.len() != expected.len() || got.iter().zip(expected.iter()).any(|(g, w)| !same_radial(g, w, deep)) {
        // same multiset?  (quadratic, only on failure)
        let mut pool: Vec<&Radial> = expected.iter().collect();
        let mut union = got.len() == expected.len();
        for g in got.iter() {
            match pool.iter().position(|w| *w == g) {
                Some(i) => {
                    pool.swap_remove(i);
                }
                None => union = false,
            }
        }
        let sig = if union { "merge:order-or-tie-order" } else { "merge:not-the-union" };
        let brief = |v: &[Radial]| v.iter().take(12).map(|r| (r.azimuth_number(), r.collection_timestamp())).collect::<Vec<_>>();
        return Err(Fail::new(
            sig,
            format!("identity mode {}: {} + {} radials in, {} out; got (az, time) {:?} want {:?}", case.mode % 5, case.az_a.len(), case.az_b.len(), got.len(), brief(got), brief(&expected)),
        ));
    }
    Ok(())
}

fn seq_strategy() -> impl Strategy<Value = SeqCase> {
    (seq_shapes(), 0u8..5).prop_map(|(mut c, mode)| {
        c.mode = mode;
        c
    })
}

fn seq_shapes() -> impl Strategy<Value = SeqCase> {
    let elev = || prop_oneof![5 => 0u8..=4, 3 => any::<u8>(), 1 => Just(0u8), 1 => Just(255u8)];
    let len = || prop_oneof![6 => 1u16..=4, 3 => 1u16..=40, 1 => 1u16..=720];
    prop_oneof![
        1 => Just(SeqCase { runs: vec![], mode: 0 }),
        // all equal
        1 => (elev(), len()).prop_map(|(e, n)| SeqCase { runs: vec![(e, n)], mode: 0 }),
        // single radial
        1 => elev().prop_map(|e| SeqCase { runs: vec![(e, 1)], mode: 0 }),
        // runs of random length
        6 => vec((elev(), len()), 1..=12).prop_map(|runs| SeqCase { runs, mode: 0 }),
        // strictly changing, every run of length 1
        2 => vec(any::<u8>(), 1..=60).prop_map(|es| SeqCase { runs: es.into_iter().map(|e| (e, 1)).collect(), mode: 0 }),
        // a,b,a,b (SAILS-like revisits)
        2 => (elev(), elev(), len(), 2usize..=10).prop_map(|(a, b, n, k)| SeqCase {
            runs: (0..k).map(|i| (if i % 2 == 0 { a } else { b }, n)).collect(),
            mode: 0,
        }),
        // ends in a run of one / starts with a run of one
        2 => (vec((elev(), len()), 0..=6), elev()).prop_map(|(mut runs, e)| {
            runs.push((e, 1));
            SeqCase { runs, mode: 0 }
        }),
        2 => (vec((elev(), len()), 0..=6), elev()).prop_map(|(mut runs, e)| {
            runs.insert(0, (e, 1));
            SeqCase { runs, mode: 0 }
        }),
        // long: up to 2000 radials
        1 => vec((elev(), 100u16..=720), 1..=6).prop_map(|runs| SeqCase { runs, mode: 0 }),
    ]
}

fn merge_strategy() -> impl Strategy<Value = MergeCase> {
    let az = || {
        prop_oneof![
            4 => vec(0u16..=8, 0..=12),       // many duplicates
            3 => vec(0u16..=720, 0..=40),
            1 => vec(any::<u16>(), 0..=40),
            1 => Just(Vec::new()),
        ]
    };
    // a small share of very large sweeps (two full 0.5-degree sweeps and more): size-dependent code paths
    let big = || prop_oneof![vec(0u16..=720, 500..=1100), vec(any::<u16>(), 500..=1100), (500u16..=1100).prop_map(|n| (1..=n).collect::<Vec<u16>>())];
    let pair = prop_oneof![
        400 => (az(), az()),
        1 => (big(), big()),
        1 => (big(), az()),
    ];
    (any::<u8>(), prop_oneof![3 => Just(None), 1 => any::<u8>().prop_map(Some)], pair, 0u8..5, prop_oneof![2 => Just(0u8), 1 => 1u8..4], prop_oneof![3 => Just(0u8), 1 => Just(1u8), 1 => Just(2u8)]).prop_map(|(ea, eb, (az_a, az_b), mode, spare, radial_elevations)| MergeCase {
        elev_a: ea,
        elev_b: eb.unwrap_or(ea),
        az_a,
        az_b,
        mode,
        spare,
        radial_elevations,
    })
}

pub fn run(ctx: &Ctx, rep: &mut Report) {
    rep.trust("reference models: maximal run-length grouping and std's stable sort of (first ++ second) by azimuth number");
    rep.assume("radials are compared as whole values (PartialEq); which field distinguishes one generated radial from another rotates over five identity modes (timestamp, azimuth angle, elevation angle, gate bytes, azimuth spacing) while the other fields collide");

    // exhaustive: all sequences of length <= 7 over three elevation values (3280 sequences)
    {
        let mut n = 0u64;
        let mut nt = 0u64;
        for len in 0..=7usize {
            let total = 3usize.pow(len as u32);
            for code in 0..total {
                let mut c = code;
                let mut seq = Vec::with_capacity(len);
                for _ in 0..len {
                    seq.push([0u8, 7, 255][c % 3]);
                    c /= 3;
                }
                let case = SeqCase { runs: seq.iter().map(|e| (*e, 1)).collect(), mode: (code % 5) as u8 };
                n += 1;
                let r = runs(&seq);
                if r.len() >= 2 || r.last().map(|x| x.2 - x.1 == 1).unwrap_or(false) {
                    nt += 1;
                }
                if let Err(f) = crate::runner::guard(|| check_grouping(&case)).unwrap_or_else(|p| Err(Fail::new("panic:oracle-or-code", p))) {
                    rep.record_failure("grouping-exhaustive-small", f, json!(case));
                }
            }
        }
        rep.enumerated(
            "grouping-exhaustive-small",
            "all sequences of length 0..=7 over three elevation values {0,7,255}; non-trivial = >= 2 runs or a final run of length 1",
            n,
            nt,
            true,
        );
        rep.sample("grouping-exhaustive-small", json!({"runs": [[0, 1], [7, 1], [0, 1]]}));
    }

    rep.prop(
        "grouping",
        "proptest: run lists (elevation, length) over patterns {empty, single run, single radial, random runs, strictly changing, a/b alternation, first/last run of one, up to 2000 radials}; non-trivial = >= 2 maximal runs or a final run of length 1",
        ctx.tier.pick(1_000_000, 20_000_000),
        seq_strategy,
        |c| {
            let seq = c.expand();
            let r = runs(&seq);
            let last1 = r.last().map(|x| x.2 - x.1 == 1).unwrap_or(false);
            CaseInfo::new(r.len() >= 2 || last1)
                .class(seq.is_empty(), "empty")
                .class(r.len() == 1, "single-run")
                .class(seq.len() == 1, "single-radial")
                .class(last1, "final-run-of-one")
                .class(r.first().map(|x| x.2 - x.1 == 1).unwrap_or(false), "first-run-of-one")
                .class(r.len() >= 2 && { let mut seen = std::collections::HashSet::new(); r.iter().any(|x| !seen.insert(x.0)) }, "revisited-elevation")
                .class(seq.len() >= 1000, "long")
        },
        check_grouping,
    );
    rep.require_class("grouping", "final-run-of-one", 20);
    rep.require_class("grouping", "single-run", 20);

    rep.prop(
        "merge",
        "proptest: sweep pairs with arbitrary, duplicated, unsorted azimuth numbers, equal or different elevation numbers, either side possibly empty; non-trivial = >= 1 azimuth number occurring in both sweeps (tie order observable)",
        ctx.tier.pick(1_000_000, 20_000_000),
        merge_strategy,
        |c| {
            let dup = c.az_a.iter().any(|a| c.az_b.contains(a));
            CaseInfo::new(dup && c.elev_a == c.elev_b)
                .class(c.elev_a != c.elev_b, "mismatch")
                .class(c.radial_elevations % 3 != 0 && c.elev_a == c.elev_b && !c.az_a.is_empty() && !c.az_b.is_empty(), "radials-disagree-with-their-sweep-label")
                .class(c.az_a.is_empty() || c.az_b.is_empty(), "one-side-empty")
                .class(dup, "cross-duplicate")
                .class(c.az_a.len() + c.az_b.len() > 1024, "more-than-1024-radials")
                .class(c.spare != 0, "operand-with-spare-capacity")
        },
        check_merge,
    );
    rep.require_class("merge", "mismatch", 20);
    rep.require_class("merge", "more-than-1024-radials", 20);
}

pub fn replay(sub: &str, case: &Value) -> Check {
    match sub {
        "grouping" | "grouping-exhaustive-small" => check_grouping(&from_case::<SeqCase>(case)?),
        "merge" => check_merge(&from_case::<MergeCase>(case)?),
        other => super::unknown_sub(other),
    }
}
