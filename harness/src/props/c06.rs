//! C06  Volume, record and chunk handling is total on arbitrary bytes.

use crate::gen::{self, DrdOpts};
use crate::props::c01::{self, RunSpec, VolumeCase};
use crate::runner::{from_case, guard, CaseInfo, Check, Ctx, Fail, Report};
use crate::wire::*;
use crate::ensure;
use nexrad_data::aws::realtime::Chunk;
use nexrad_data::volume::{File, Record};
use proptest::collection::vec;
use proptest::prelude::*;
use serde::{Deserialize, Serialize};
use serde_json::{json, Value};
use std::sync::atomic::{AtomicU64, Ordering};
use std::time::Instant;

pub const SLOW_CALL_S: f64 = 20.0;
pub static MAX_CALL_US: AtomicU64 = AtomicU64::new(0);

fn observe<T>(what: &str, len: usize, f: impl FnOnce() -> T) -> Result<T, Fail> {
    crate::hang::label(what);
    let t0 = Instant::now();
    let r = guard(f);
    let dt = t0.elapsed();
    MAX_CALL_US.fetch_max(dt.as_micros() as u64, Ordering::Relaxed);
    let out = r.map_err(|p| Fail::new(format!("panic:{}", what), format!("{} panicked on a {}-byte input: {}", what, len, p)))?;
    if dt.as_secs_f64() > SLOW_CALL_S {
        return Err(Fail::new("inconclusive:slow-call", format!("{} took {:.1} s on a {}-byte input", what, dt.as_secs_f64(), len)));
    }
    Ok(out)
}

fn exercise_record(what: &str, rec: &Record, n: usize) -> Check {
    let _ = observe(&format!("{}::data", what), n, || rec.data().len())?;
    let _ = observe(&format!("{}::compressed", what), n, || rec.compressed())?;
    let _ = observe(&format!("{}::messages", what), n, || rec.messages().map(|m| m.len()))?;
    let _ = observe(&format!("{}::fmt", what), n, || format!("{:?}", rec))?;
    let _ = observe(&format!("{}::fmt-pretty", what), n, || format!("{:#?}", rec))?;
    let d = observe(&format!("{}::decompress", what), n, || rec.decompress())?;
    if let Ok(inner) = d {
        let _ = observe(&format!("{}::decompress::messages", what), n, || inner.messages().map(|m| m.len()))?;
        let _ = observe(&format!("{}::decompress::fmt", what), n, || format!("{:?}", inner))?;
        let _ = observe(&format!("{}::decompress::fmt-pretty", what), n, || format!("{:#?}", inner))?;
        let _ = observe(&format!("{}::decompress::compressed", what), n, || inner.compressed())?;
    }
    Ok(())
}

/// The whole C06 oracle for one byte string.
pub fn check_bytes(b: &[u8]) -> Check {
    crate::hang::enter(b);
    crate::journal::publish_bytes(b);
    let r = check_bytes_inner(b);
    crate::hang::leave();
    crate::journal::clear();
    r
}

fn check_bytes_inner(b: &[u8]) -> Check {
    let n = b.len();
    // as a volume file
    let file = observe("File::new", n, || File::new(b.to_vec()))?;
    let _ = observe("File::data", n, || file.data().len())?;
    let _ = observe("File::header", n, || file.header().map(|h| format!("{:?} {:#?}", h, h)))?;
    let records = observe("File::records", n, || file.records())?;
    // no record extends past the data: the records are consecutive slices of the bytes after the header
    let mut total = 0usize;
    for r in &records {
        total += r.data().len();
    }
    ensure!(total <= n.saturating_sub(24), "shape:records-exceed-file", "records hold {} bytes but only {} follow the header", total, n.saturating_sub(24));
    if n >= 24 {
        let mut pos = 24usize;
        for (i, r) in records.iter().enumerate() {
            ensure!(&b[pos..pos + r.data().len()] == r.data(), "shape:record-not-a-slice-of-the-file", "record {} does not equal the file bytes at its position", i);
            pos += r.data().len();
        }
    }
    for r in records.iter().take(64) {
        exercise_record("File::records[i]", r, n)?;
    }
    let _ = observe("File::fmt", n, || format!("{:?}", file))?;
    // the alternate (pretty) form is what dbg!() prints; width / precision flags must not matter either
    let _ = observe("File::fmt-pretty", n, || format!("{:#?} {:10.3?}", file, file))?;
    let _ = observe("File::scan", n, || file.scan().map(|s| s.sweeps().len()))?;
    // as an LDM record
    exercise_record("Record::new", &Record::new(b.to_vec()), n)?;
    exercise_record("Record::from_slice", &Record::from_slice(b), n)?;
    // as a real-time chunk
    let chunk = observe("Chunk::new", n, || Chunk::new(b.to_vec()))?;
    if let Ok(chunk) = chunk {
        let _ = observe("Chunk::data", n, || chunk.data().len())?;
        let _ = observe("Chunk::fmt", n, || format!("{:?}", chunk))?;
        let _ = observe("Chunk::fmt-pretty", n, || format!("{:#?}", chunk))?;
        match &chunk {
            Chunk::Start(f) => {
                let _ = observe("Chunk::Start::records", n, || f.records().len())?;
                let _ = observe("Chunk::Start::scan", n, || f.scan().map(|_| ()))?;
            }
            Chunk::IntermediateOrEnd(r) => exercise_record("Chunk::IntermediateOrEnd", r, n)?,
        }
    }
    Ok(())
}

/// Shape clause for a truncation of a valid volume: the record list is a prefix-consistent shorter list.
pub fn check_truncated_shape(valid: &[u8], cut: usize) -> Check {
    let full = File::new(valid.to_vec());
    let original: Vec<Vec<u8>> = full.records().iter().map(|r| r.data().to_vec()).collect();
    let t = &valid[..cut];
    let file = File::new(t.to_vec());
    let records = observe("File::records", cut, || file.records())?;
    ensure!(records.len() <= original.len(), "shape:truncation-adds-records", "cut at {}: {} records, the whole file has {}", cut, records.len(), original.len());
    let k = records.len();
    for (i, r) in records.iter().enumerate() {
        if i + 1 < k {
            ensure!(r.data() == &original[i][..], "shape:complete-record-differs", "cut at {}: record {} differs from the whole file's record", cut, i);
        } else {
            ensure!(original[i].starts_with(r.data()), "shape:last-record-not-a-prefix", "cut at {}: last record is not a prefix of the original record {}", cut, i);
        }
    }
    Ok(())
}

/// Shape clause for a truncated record payload: a message stream cut short is reported as an error or as a
/// shorter message list than the whole payload gives -- never as the complete data. `stream` is a well-formed
/// contiguous message stream; the payload is looked at plain (Record::new / from_slice) and as the decompressed
/// content of a real-time chunk.
pub fn check_truncated_payload(stream: &[u8], cut: usize, through_chunk: bool) -> Check {
    let full = match observe("Record::messages", stream.len(), || Record::new(stream.to_vec()).messages().map(|m| m.len()))? {
        Ok(n) => n,
        Err(e) => return Err(Fail::new("shape:whole-payload-rejected", format!("a well-formed {}-byte message stream was rejected: {}", stream.len(), e))),
    };
    let t = &stream[..cut];
    let mut views: Vec<(&str, Record)> = vec![("Record::new", Record::new(t.to_vec())), ("Record::from_slice", Record::from_slice(t))];
    let owned;
    if through_chunk {
        let wire = encode_record(&bzip2_compress(t, 9), false);
        if let Ok(Chunk::IntermediateOrEnd(r)) = observe("Chunk::new", wire.len(), || Chunk::new(wire.clone()))? {
            if let Ok(d) = observe("Chunk::decompress", wire.len(), || r.decompress())? {
                owned = d;
                ensure!(owned.data() == t, "shape:chunk-payload-differs", "the chunk's decompressed payload is not the {} bytes that were compressed", cut);
                views.push(("Chunk::IntermediateOrEnd::decompress", Record::new(owned.data().to_vec())));
            }
        }
    }
    for (what, rec) in &views {
        match observe(&format!("{}::messages", what), cut, || rec.messages().map(|m| m.len()))? {
            Err(_) => {}
            Ok(n) => ensure!(
                n < full,
                "shape:truncated-payload-reported-complete",
                "{}: a payload cut at {} of {} bytes decoded to {} messages, the whole payload has {}",
                what,
                cut,
                stream.len(),
                n,
                full
            ),
        }
    }
    Ok(())
}

#[derive(Clone, Debug, Serialize, Deserialize)]
pub enum Base {
    Volume(Box<VolumeCase>),
    /// an intermediate chunk: one LDM record (size prefix + bzip2 of a message stream)
    RecordChunk(Vec<MsgSpec>),
    Raw(Vec<u8>),
    /// a container whose records are all CRC-correct bzip2 streams, but of *chosen plaintexts* (damage at the
    /// content level rather than the container level); with or without a volume header
    Crafted { volume_header: bool, payloads: Vec<Payload> },
}

#[derive(Clone, Debug, Serialize, Deserialize)]
pub enum Payload {
    /// arbitrary bytes (not a message stream)
    Bytes(Vec<u8>),
    /// a plaintext that itself looks like a compressed record: 4 arbitrary bytes, "BZ", then arbitrary bytes
    FakeMagic([u8; 4], Vec<u8>),
    /// a plaintext that IS an LDM record (size prefix + bzip2 of a message stream): a doubly wrapped record
    Nested(Vec<MsgSpec>),
    /// a valid message stream
    Stream(Vec<MsgSpec>),
    /// a valid message stream cut at a scaled position
    CutStream(Vec<MsgSpec>, u16),
    /// a message stream damaged at the field level (C04's structure-aware mutations: counts, pointers, names, gate counts,
    /// word sizes ...) - decodes far enough to reach the conversion code behind `scan()`
    MutatedStream(Box<crate::props::c04::MutCase>),
}

impl Payload {
    pub fn bytes(&self) -> Vec<u8> {
        match self {
            Payload::Bytes(b) => b.clone(),
            Payload::FakeMagic(p, rest) => {
                let mut v = p.to_vec();
                v.extend_from_slice(b"BZ");
                v.extend_from_slice(rest);
                v
            }
            Payload::Nested(msgs) => encode_record(&bzip2_compress(&encode_stream(msgs).0, 9), false),
            Payload::Stream(msgs) => encode_stream(msgs).0,
            Payload::MutatedStream(c) => crate::props::c04::apply(c),
            Payload::CutStream(msgs, at) => {
                let mut v = encode_stream(msgs).0;
                let k = (*at as usize * (v.len() + 1)) >> 16;
                v.truncate(k);
                v
            }
        }
    }
}

#[derive(Clone, Debug, Serialize, Deserialize)]
pub enum Op {
    Truncate(u16),
    /// overwrite the size prefix of record `rec` (scaled) with a corrupt value
    Prefix { rec: u16, variant: u8 },
    /// flip a bit / set a byte inside the body of record `rec`
    BodyFlip { rec: u16, at: u16, bit: u8 },
    BodySet { rec: u16, at: u16, value: u8 },
    FlipBit(u16, u8),
    Append(Vec<u8>),
}

#[derive(Clone, Debug, Serialize, Deserialize)]
pub struct Case {
    pub base: Base,
    pub ops: Vec<Op>,
}

fn record_positions(bytes: &[u8], start: usize) -> Vec<(usize, usize)> {
    // (prefix offset, body length) of each record in a *valid* container
    let mut out = Vec::new();
    let mut pos = start;
    while pos + 4 <= bytes.len() {
        let size = i32::from_be_bytes([bytes[pos], bytes[pos + 1], bytes[pos + 2], bytes[pos + 3]]).unsigned_abs() as usize;
        if pos + 4 + size > bytes.len() {
            break;
        }
        out.push((pos, size));
        pos += 4 + size;
    }
    out
}

pub fn base_bytes(b: &Base) -> (Vec<u8>, usize) {
    match b {
        Base::Volume(v) => (c01::build_file(v).0, 24),
        Base::RecordChunk(msgs) => (encode_record(&bzip2_compress(&encode_stream(msgs).0, 9), false), 0),
        Base::Raw(v) => (v.clone(), 24),
        Base::Crafted { volume_header, payloads } => {
            let mut out = Vec::new();
            if *volume_header {
                out.extend_from_slice(&VolHeaderSpec { tape: *b"AR2V0006.", ext: *b"321", date: 20_001, time: 2000, icao: *b"KCRI" }.encode());
            }
            for (i, p) in payloads.iter().enumerate() {
                out.extend_from_slice(&encode_record(&bzip2_compress(&p.bytes(), 1 + (i % 9) as u32), i % 3 == 2));
            }
            (out, if *volume_header { 24 } else { 0 })
        }
    }
}

pub fn apply(c: &Case) -> Vec<u8> {
    let (mut bytes, start) = base_bytes(&c.base);
    let recs = record_positions(&bytes, start);
    for op in &c.ops {
        let len = bytes.len();
        let at = |sel: u16, n: usize| -> usize { (sel as usize * n.max(1)) >> 16 };
        match op {
            Op::Truncate(s) => bytes.truncate(at(*s, len)),
            Op::FlipBit(s, bit) => {
                if len > 0 {
                    let k = at(*s, len);
                    bytes[k] ^= 1 << (bit % 8);
                }
            }
            Op::Append(extra) => bytes.extend_from_slice(extra),
            Op::Prefix { rec, variant } => {
                if recs.is_empty() {
                    continue;
                }
                let (pos, size) = recs[at(*rec, recs.len())];
                let remainder = len.saturating_sub(pos + 4) as i64;
                let v: i64 = match variant % 10 {
                    0 => 0,
                    1 => 1,
                    2 => remainder - 1,
                    3 => remainder,
                    4 => remainder + 1,
                    5 => i32::MAX as i64,
                    6 => i32::MIN as i64,
                    7 => -1,
                    8 => -(size as i64) - 1,
                    _ => size as i64 + 1,
                };
                if pos + 4 <= bytes.len() {
                    put32(&mut bytes, pos, v as i32 as u32);
                }
            }
            Op::BodyFlip { rec, at: a, bit } => {
                if recs.is_empty() {
                    continue;
                }
                let (pos, size) = recs[at(*rec, recs.len())];
                if size > 0 {
                    let k = pos + 4 + at(*a, size);
                    if k < bytes.len() {
                        bytes[k] ^= 1 << (bit % 8);
                    }
                }
            }
            Op::BodySet { rec, at: a, value } => {
                if recs.is_empty() {
                    continue;
                }
                let (pos, size) = recs[at(*rec, recs.len())];
                if size > 0 {
                    let k = pos + 4 + at(*a, size);
                    if k < bytes.len() {
                        bytes[k] = *value;
                    }
                }
            }
        }
    }
    bytes
}

pub fn check_case(c: &Case) -> Check {
    let bytes = apply(c);
    check_bytes(&bytes)
}

pub fn small_volume() -> impl Strategy<Value = VolumeCase> {
    let opts = DrdOpts { small: true, known_vcp: false, ..DrdOpts::volume() };
    let run = (1u8..=4, 1u16..=3, vec(gen::drd(opts, Just(0u8).boxed(), None), 1..=2)).prop_map(|(elevation, count, templates)| RunSpec { elevation, count, templates });
    let meta = (any::<u16>(), prop_oneof![Just(2u8), Just(5u8), Just(15u8)]).prop_flat_map(move |(p, t)| gen::msg_of_type(t, opts, None).prop_map(move |m| (p, m)));
    (gen::vol_header(), vec(run, 1..=3), vec(meta, 0..=1), vec(any::<u16>(), 0..=3), gen::msg_header(31, Some(true)))
        .prop_map(|(header, runs, metadata, splits, msg_header)| VolumeCase { header, runs, metadata, splits, msg_header })
}

fn op_strategy() -> impl Strategy<Value = Op> {
    prop_oneof![
        4 => any::<u16>().prop_map(Op::Truncate),
        5 => (any::<u16>(), any::<u8>()).prop_map(|(rec, variant)| Op::Prefix { rec, variant }),
        3 => (any::<u16>(), any::<u16>(), any::<u8>()).prop_map(|(rec, at, bit)| Op::BodyFlip { rec, at, bit }),
        2 => (any::<u16>(), any::<u16>(), any::<u8>()).prop_map(|(rec, at, value)| Op::BodySet { rec, at, value }),
        2 => (any::<u16>(), any::<u8>()).prop_map(|(a, b)| Op::FlipBit(a, b)),
        1 => vec(any::<u8>(), 0..=12).prop_map(Op::Append),
    ]
}

fn payload_strategy() -> impl Strategy<Value = Payload> {
    let opts = DrdOpts { small: true, ..DrdOpts::framing() };
    prop_oneof![
        2 => prop_oneof![Just(Vec::new()), vec(any::<u8>(), 1..=5), vec(any::<u8>(), 6..=40), vec(any::<u8>(), 2400..=2500)].prop_map(Payload::Bytes),
        3 => (any::<[u8; 4]>(), prop_oneof![Just(Vec::new()), vec(any::<u8>(), 1..=40), Just(b"h91AY&SY".to_vec())]).prop_map(|(p, r)| Payload::FakeMagic(p, r)),
        2 => vec(gen::msg(opts), 0..=2).prop_map(Payload::Nested),
        2 => vec(gen::msg(opts), 0..=2).prop_map(Payload::Stream),
        2 => (vec(gen::msg(opts), 1..=2), any::<u16>()).prop_map(|(m, at)| Payload::CutStream(m, at)),
        4 => crate::props::c04::mut_case_strategy().prop_map(|c| Payload::MutatedStream(Box::new(c))),
    ]
}

pub fn crafted_base() -> impl Strategy<Value = Base> {
    (prop_oneof![3 => Just(true), 1 => Just(false)], vec(payload_strategy(), 1..=3)).prop_map(|(volume_header, payloads)| Base::Crafted { volume_header, payloads })
}

fn case_strategy() -> impl Strategy<Value = Case> {
    let opts = DrdOpts { small: true, ..DrdOpts::framing() };
    let base = prop_oneof![
        5 => small_volume().prop_map(|v| Base::Volume(Box::new(v))),
        3 => vec(gen::msg(opts), 0..=3).prop_map(Base::RecordChunk),
        2 => vec(any::<u8>(), 0..=300).prop_map(Base::Raw),
        3 => crafted_base(),
    ];
    // crafted containers are mostly left undamaged: the point is the plaintext
    (base, vec(op_strategy(), 0..=4), any::<bool>()).prop_map(|(base, ops, keep)| {
        let ops = if matches!(base, Base::Crafted { .. }) && keep { Vec::new() } else { ops };
        Case { base, ops }
    })
}

fn length_band(n: usize) -> &'static str {
    match n {
        0 => "len-0",
        1..=2 => "len-1-2",
        3..=5 => "len-3-5",
        6..=23 => "len-6-23",
        24..=27 => "len-24-27",
        _ => "len-28-plus",
    }
}

pub fn run(ctx: &Ctx, rep: &mut Report) {
    rep.trust("observers: catch_unwind + panic hook and a wall-clock timer around every public call");
    rep.assume("a call slower than 20 s is reported as inconclusive, never as a violation; termination is an observed bound, not a proof");
    rep.assume("for a truncated valid volume the record list must be prefix-consistent: complete records unchanged, the last one at most a prefix of the original record, none extending past the data");

    // (a) every length 0..=64 x fills x magic-prefixed variants
    {
        let mut n = 0u64;
        let mut nt = 0u64;
        let hdr = VolHeaderSpec { tape: *b"AR2V0006.", ext: *b"123", date: 20_000, time: 1000, icao: *b"KTLX" }.encode();
        for len in 0..=64usize {
            let mut inputs: Vec<Vec<u8>> = vec![vec![0u8; len], vec![0xFFu8; len]];
            for k in 0..3u64 {
                let mut x = crate::runner::hash_bytes(format!("{}|c06-len|{}|{}", ctx.seed, len, k).as_bytes()) | 1;
                inputs.push(
                    (0..len)
                        .map(|_| {
                            x ^= x << 13;
                            x ^= x >> 7;
                            x ^= x << 17;
                            (x >> 40) as u8
                        })
                        .collect(),
                );
            }
            let with_prefix = |p: &[u8]| -> Vec<u8> {
                let mut v: Vec<u8> = p.iter().copied().take(len).collect();
                while v.len() < len {
                    v.push((v.len() * 7) as u8);
                }
                v
            };
            inputs.push(with_prefix(b"AR2V0006.001"));
            inputs.push(with_prefix(b"AR2"));
            inputs.push(with_prefix(&[0, 0, 0, 6, b'B', b'Z', b'h', b'9', 1, 2]));
            inputs.push(with_prefix(&[0xFF, 0xFF, 0xFF, 0xFA, b'B', b'Z']));
            inputs.push(with_prefix(&[0x7F, 0xFF, 0xFF, 0xFF, b'B', b'Z']));
            // a valid 24-byte header followed by len bytes
            for tail_kind in 0..3 {
                let mut v = hdr.to_vec();
                for i in 0..len {
                    v.push(match tail_kind {
                        0 => 0,
                        1 => 0xFF,
                        _ => (i * 37 + len) as u8,
                    });
                }
                inputs.push(v);
            }
            for b in inputs {
                n += 1;
                if b.len() < 24 {
                    nt += 1;
                }
                if let Err(f) = check_bytes(&b) {
                    rep.record_failure("bytes", f, json!({"bytes": b}));
                }
            }
        }
        rep.enumerated(
            "every-length-0-64",
            "every length 0..=64 x {zeros, 0xFF, 3 seeded random, 'AR2V0006.001…', 'AR2…', BZ-record-like prefixes with sizes 6 / -6 / i32::MAX} plus a valid 24-byte header followed by 0..=64 bytes; non-trivial = shorter than the 24-byte header",
            n,
            nt,
            true,
        );
        rep.sample("every-length-0-64", json!({"len": 5, "prefix": "AR2"}));
    }

    // (b) every truncation point of valid small volumes and chunks, with the shape clause
    {
        let count = ctx.tier.pick(6usize, 60usize);
        let mut n = 0u64;
        for i in 0..count {
            let v = crate::runner::draw(&small_volume(), ctx.seed, "c06-trunc-volume", i);
            let (bytes, _, _) = c01::build_file(&v);
            let limit = bytes.len().min(8192);
            for cut in 0..=limit {
                n += 1;
                let r = check_bytes(&bytes[..cut]).and_then(|_| check_truncated_shape(&bytes, cut));
                if let Err(f) = r {
                    rep.record_failure("bytes", f, json!({"bytes": bytes[..cut].to_vec()}));
                    break;
                }
            }
        }
        let opts = DrdOpts { small: true, ..DrdOpts::framing() };
        for i in 0..count {
            let msgs = crate::runner::draw(&vec(gen::msg(opts), 1..=2), ctx.seed, "c06-trunc-chunk", i);
            let (bytes, _) = base_bytes(&Base::RecordChunk(msgs));
            for cut in 0..=bytes.len() {
                n += 1;
                if let Err(f) = check_bytes(&bytes[..cut]) {
                    rep.record_failure("bytes", f, json!({"bytes": bytes[..cut].to_vec()}));
                    break;
                }
            }
        }
        // (b2) every truncation point of the *payload* of a record: error or shorter message list, never the full list
        for i in 0..count {
            let msgs = crate::runner::draw(&vec(gen::msg(opts), 1..=3), ctx.seed, "c06-trunc-payload", i);
            let (stream, _) = encode_stream(&msgs);
            for cut in 0..stream.len() {
                n += 1;
                if let Err(f) = check_truncated_payload(&stream, cut, cut % 89 == (i % 89)) {
                    rep.record_failure("truncated-payload", f, json!({"stream": stream, "cut": cut}));
                    break;
                }
            }
        }
        rep.enumerated("every-truncation-point", "every truncation point of seeded valid volumes (<= 8 KiB) and intermediate chunks; for volumes additionally the prefix-consistent shorter-list shape; every truncation point of the payload (1..3 messages of any type) of a plain record and, sampled, of a chunk's decompressed record: error or a shorter message list than the whole payload", n, n, true);
        rep.sample("every-truncation-point", json!({"kind": "volume", "cut": 27}));
    }

    // (c)+(d) corruption of valid containers and random bytes
    rep.prop(
        "corrupted-containers",
        "proptest: base = small valid volume | intermediate chunk (prefix + bzip2(message stream)) | up to 300 random bytes | crafted container (volume or bare records whose bzip2 streams are CRC-correct but carry chosen plaintexts: arbitrary bytes, fake 'BZ' magic at 4..6, a doubly wrapped record, a whole or cut message stream), then 0..4 operators {truncate, size-prefix corruption (0, 1, remainder-1/+0/+1, i32::MAX, i32::MIN, -1, size+-1), bit flip / byte set inside a compressed body, bit flip anywhere, append}; non-trivial = shorter than 24 bytes, or a corrupted size prefix / body after >= 1 record, or a crafted plaintext",
        ctx.tier.pick(150_000, 1_500_000),
        case_strategy,
        |c| {
            let b = apply(c);
            let damaged = c.ops.iter().any(|o| matches!(o, Op::Prefix { .. } | Op::BodyFlip { .. } | Op::BodySet { .. }));
            CaseInfo::new(b.len() < 24 || damaged || matches!(c.base, Base::Crafted { .. }))
                .class(true, length_band(b.len()))
                .class(c.ops.iter().any(|o| matches!(o, Op::Prefix { .. })), "size-prefix-corrupted")
                .class(c.ops.iter().any(|o| matches!(o, Op::BodyFlip { .. } | Op::BodySet { .. })), "bzip2-body-corrupted")
                .class(c.ops.iter().any(|o| matches!(o, Op::Truncate(_))), "truncated")
                .class(matches!(c.base, Base::RecordChunk(_)), "chunk-base")
                .class(matches!(&c.base, Base::Crafted { .. }) && c.ops.is_empty(), "crafted-plaintext-intact")
                .class(matches!(&c.base, Base::Crafted { payloads, .. } if payloads.iter().any(|p| matches!(p, Payload::FakeMagic(..) | Payload::Nested(_)))) && c.ops.is_empty(), "plaintext-looks-compressed")
        },
        check_case,
    );
    rep.require_class("corrupted-containers", "size-prefix-corrupted", 100);
    rep.require_class("corrupted-containers", "bzip2-body-corrupted", 100);
    rep.require_class("corrupted-containers", "plaintext-looks-compressed", 100);

    rep.prop(
        "random-bytes",
        "proptest: uniformly random bytes, lengths 0..=8192 (short lengths boosted), optionally prefixed with 'AR2' or given 'BZ' at offset 4; non-trivial = shorter than 24 bytes or magic-prefixed",
        ctx.tier.pick(150_000, 1_200_000),
        || {
            let len = prop_oneof![5 => 0usize..=64, 3 => 65usize..=2500, 1 => 2500usize..=8192];
            (len.prop_flat_map(|n| vec(any::<u8>(), n)), 0u8..4).prop_map(|(mut bytes, magic)| {
                match magic {
                    1 if bytes.len() >= 3 => bytes[..3].copy_from_slice(b"AR2"),
                    2 if bytes.len() >= 6 => bytes[4..6].copy_from_slice(b"BZ"),
                    _ => {}
                }
                bytes
            })
        },
        |b: &Vec<u8>| CaseInfo::new(b.len() < 24 || b.starts_with(b"AR2") || (b.len() >= 6 && &b[4..6] == b"BZ")).class(true, length_band(b.len())),
        |b: &Vec<u8>| check_bytes(b),
    );

    rep.extra.insert("max_call_microseconds_observed".into(), json!(MAX_CALL_US.load(Ordering::Relaxed)));
    let slow: Vec<_> = rep.violations.iter().filter(|v| v.sig == "inconclusive:slow-call").map(|v| v.detail.clone()).collect();
    if !slow.is_empty() {
        rep.violations.retain(|v| v.sig != "inconclusive:slow-call");
        for s in slow {
            rep.inconclusive.push(s);
        }
    }
}

pub fn replay(sub: &str, case: &Value) -> Check {
    let r = match sub {
        "corrupted-containers" => check_case(&from_case::<Case>(case)?),
        "random-bytes" => check_bytes(&from_case::<Vec<u8>>(case)?),
        "bytes" | "every-length-0-64" | "every-truncation-point" | "fuzz" | "nontermination" => {
            let b: Vec<u8> = from_case(case.get("bytes").unwrap_or(case))?;
            check_bytes(&b)
        }
        "truncated-payload" => {
            let stream: Vec<u8> = from_case(case.get("stream").ok_or_else(|| Fail::new("replay-format", "no stream".to_string()))?)?;
            let cut = case.get("cut").and_then(|v| v.as_u64()).unwrap_or(0) as usize;
            check_truncated_payload(&stream, cut.min(stream.len()), true)
        }
        other => return super::unknown_sub(other),
    };
    match r {
        Err(f) if f.sig == "inconclusive:slow-call" => Err(Fail::new("replay-format", f.detail)),
        other => other,
    }
}
