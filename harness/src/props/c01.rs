//! C01  Volume-to-scan conversion conserves every radial.

use crate::gen::{self, DrdOpts};
use crate::model::runs;
use crate::props::c07;
use crate::runner::{from_case, no_panic, CaseInfo, Check, Ctx, Fail, Report, Tier};
use crate::wire::*;
use crate::{ensure, ensure_eq};
use nexrad_data::result::Error as DataError;
use nexrad_data::volume::File;
use proptest::collection::vec;
use proptest::prelude::*;
use serde::{Deserialize, Serialize};
use serde_json::{json, Value};

#[derive(Clone, Debug, Serialize, Deserialize)]
pub struct RunSpec {
    pub elevation: u8,
    pub count: u16,
    /// radial i of the run is templates[i % len] with az number / time / first gate byte varied by i
    pub templates: Vec<DrdSpec>,
}

#[derive(Clone, Debug, Serialize, Deserialize)]
pub struct VolumeCase {
    pub header: VolHeaderSpec,
    pub runs: Vec<RunSpec>,
    /// metadata frames (never type 31) inserted before the radial with the given scaled position
    pub metadata: Vec<(u16, MsgSpec)>,
    /// record boundaries as scaled positions in the message list
    pub splits: Vec<u16>,
    pub msg_header: MsgHeaderSpec,
}

/// The type-31 specs of the volume in file order.
pub fn radial_specs(c: &VolumeCase) -> Vec<DrdSpec> {
    let mut out = Vec::new();
    let mut serial: u32 = 0;
    for run in &c.runs {
        for i in 0..run.count as usize {
            if run.templates.is_empty() {
                break;
            }
            let mut s = run.templates[i % run.templates.len()].clone();
            s.header.elev_num = run.elevation;
            s.header.az_num = (i % 720) as u16 + 1;
            s.header.time = (s.header.time % 80_000_000).wrapping_add(serial) % 86_400_000;
            for m in s.moments.iter_mut().flatten() {
                if let Some(b) = m.data.first_mut() {
                    *b = serial as u8;
                }
            }
            serial += 1;
            out.push(s);
        }
    }
    out
}

pub fn build_messages(c: &VolumeCase) -> (Vec<MsgSpec>, Vec<DrdSpec>) {
    let radials = radial_specs(c);
    let n = radials.len();
    let mut inserts: Vec<(usize, &MsgSpec)> = c.metadata.iter().map(|(p, m)| (((*p as usize) * (n + 1)) >> 16, m)).collect();
    inserts.sort_by_key(|x| x.0);
    let mut msgs = Vec::with_capacity(n + inserts.len());
    let mut it = inserts.into_iter().peekable();
    for (i, r) in radials.iter().enumerate() {
        while it.peek().map(|x| x.0 <= i).unwrap_or(false) {
            msgs.push(it.next().expect("peeked").1.clone());
        }
        let mut h = c.msg_header.clone();
        h.mtype = 31;
        h.seq = i as u16;
        msgs.push(MsgSpec { header: h, body: BodySpec::Drd(Box::new(r.clone())) });
    }
    for (_, m) in it {
        msgs.push(m.clone());
    }
    (msgs, radials)
}

pub fn build_file(c: &VolumeCase) -> (Vec<u8>, Vec<DrdSpec>, usize) {
    let (msgs, radials) = build_messages(c);
    let n = msgs.len();
    let mut cuts: Vec<usize> = c.splits.iter().map(|p| ((*p as usize) * (n + 1)) >> 16).collect();
    cuts.push(0);
    cuts.push(n);
    cuts.sort_unstable();
    // duplicates are kept: they produce empty records, which are legal
    let mut bytes = c.header.encode().to_vec();
    let mut records = 0usize;
    for (ri, w) in cuts.windows(2).enumerate() {
        if w[0] == w[1] && ri > 0 && ri + 2 < cuts.len() && ri % 3 != 0 {
            continue; // keep only some of the empty records
        }
        let (payload, _) = encode_stream(&msgs[w[0]..w[1]]);
        // every record is bzip2-compressed, as the statement (and the format) prescribes
        let body = bzip2_compress(&payload, 1 + (ri % 9) as u32);
        bytes.extend_from_slice(&encode_record(&body, ri % 4 == 3));
        records += 1;
    }
    (bytes, radials, records)
}

pub fn check_volume(c: &VolumeCase) -> Check {
    let (bytes, radials, _) = build_file(c);
    // history: a failed conversion of a truncated copy on the same thread must not influence what follows
    if let Some(sel) = c.splits.first() {
        // either a random cut, or a cut a few bytes before the end (all bzip2 blocks of the last record are
        // decoded before its missing trailer is noticed)
        let cut = if sel % 2 == 0 { 24 + (((*sel as usize) * bytes.len().saturating_sub(24)) >> 16) } else { bytes.len().saturating_sub(1 + (*sel as usize / 2) % 8) };
        let truncated = File::new(bytes[..cut.min(bytes.len())].to_vec());
        let _ = no_panic("File::scan", || truncated.scan().map(|_| ()))?;
    }
    let file = File::new(bytes);
    let scan = no_panic("File::scan", || file.scan())?;
    // reuse / clone: converting a clone of the file object (after the first conversion) must give the same scan
    let twin = file.clone();
    if let (Ok(first), Ok(Ok(second))) = (&scan, no_panic("File::scan", || twin.scan())) {
        ensure_eq!(first.coverage_pattern_number(), second.coverage_pattern_number(), "scan:second-conversion-differs");
        ensure!(first.sweeps().len() == second.sweeps().len() && first.sweeps().iter().zip(second.sweeps().iter()).all(|(a, b)| a.elevation_number() == b.elevation_number() && a.radials().len() == b.radials().len()), "scan:second-conversion-differs", "scan() of the same File gave a different sweep structure the second time");
    }
    let first_vcp = radials.iter().find_map(|r| r.vol.as_ref().map(|v| v.vcp));
    let scan = match (scan, first_vcp) {
        (Err(DataError::MissingCoveragePattern), None) => return Ok(()),
        (Err(e), None) => return Err(Fail::new("scan:wrong-error-without-vol", format!("volume without any VOL block must give MissingCoveragePattern, got {:?}", e))),
        (Ok(_), None) => return Err(Fail::new("scan:ok-without-vol", "volume without any VOL block produced a scan")),
        (Err(e), Some(_)) => return Err(Fail::new("scan:wellformed-volume-rejected", format!("{} radials: {:?}", radials.len(), e))),
        (Ok(s), Some(v)) => {
            ensure_eq!(s.coverage_pattern_number(), v, "scan:coverage-pattern-number", "must be the VCP of the first VOL block in file order");
            s
        }
    };
    // grouping model: maximal runs of equal elevation number over the file's radial order
    let elevs: Vec<u8> = radials.iter().map(|r| r.header.elev_num).collect();
    let model = runs(&elevs);
    let total: usize = scan.sweeps().iter().map(|s| s.radials().len()).sum();
    if total != radials.len() {
        return Err(Fail::new(
            "scan:radial-count",
            format!("{} type-31 radials in the file, {} radials in the scan ({} sweeps, expected {})", radials.len(), total, scan.sweeps().len(), model.len()),
        ));
    }
    ensure_eq!(scan.sweeps().len(), model.len(), "scan:sweep-count");
    let mut idx = 0usize;
    for (si, (sweep, (e, a, b))) in scan.sweeps().iter().zip(model.iter()).enumerate() {
        ensure_eq!(sweep.elevation_number(), *e, "scan:sweep-elevation-number", "sweep {}", si);
        ensure_eq!(sweep.radials().len(), b - a, "scan:sweep-length", "sweep {}", si);
        for r in sweep.radials() {
            let spec = &radials[idx];
            let msg = c07::build_message(spec);
            c07::check_radial_against_spec(spec, &msg, r).map_err(|f| Fail::new(format!("scan:{}", f.sig), format!("radial {} (sweep {}): {}", idx, si, f.detail)))?;
            idx += 1;
        }
    }
    Ok(())
}

fn elevation_pattern() -> impl Strategy<Value = Vec<(u8, u16)>> {
    let len = || prop_oneof![8 => 1u16..=12, 2 => Just(1u16), 1 => 13u16..=80];
    prop_oneof![
        // single elevation
        2 => (any::<u8>(), len()).prop_map(|(e, n)| vec![(e, n)]),
        // single radial
        1 => any::<u8>().prop_map(|e| vec![(e, 1)]),
        // ascending
        3 => (1usize..=14, len()).prop_map(|(k, n)| (1..=k as u8).map(|e| (e, n)).collect()),
        // SAILS-like 1,2,1,3
        2 => (len(), len()).prop_map(|(a, b)| vec![(1, a), (2, b), (1, a), (3, b), (1, 1), (4, a)]),
        // repeats / random incl. 0 and 255
        3 => vec((prop_oneof![3 => 0u8..=5, 2 => any::<u8>(), 1 => Just(0u8), 1 => Just(255u8)], len()), 1..=10),
        // final run of one
        1 => (vec((1u8..=6, len()), 1..=5), any::<u8>()).prop_map(|(mut v, e)| {
            v.push((e, 1));
            v
        }),
        // one full 720-radial sweep among others
        1 => (1u8..=3, len()).prop_map(|(e, n)| vec![(e, n), (e + 1, 720), (e + 2, 1)]),
    ]
}

fn volume_strategy(opts: DrdOpts, force_no_vol: bool) -> impl Strategy<Value = VolumeCase> {
    let template = move || {
        gen::drd(opts, Just(0u8).boxed(), None).prop_map(move |mut d| {
            if force_no_vol {
                if d.vol.is_some() {
                    d.vol = None;
                    d.pointer_order.retain(|k| *k != VOL);
                    let keep: Vec<bool> = d.physical_order.iter().map(|k| *k != VOL).collect();
                    d.physical_order.retain(|k| *k != VOL);
                    let mut i = 0;
                    d.gaps.retain(|_| {
                        let k = keep.get(i).copied().unwrap_or(true);
                        i += 1;
                        k
                    });
                }
            }
            d
        })
    };
    let meta = (any::<u16>(), prop_oneof![Just(2u8), Just(5u8), Just(15u8), Just(3u8), Just(18u8), any::<u8>().prop_filter("not 31", |t| *t != 31)])
        .prop_flat_map(move |(p, t)| gen::msg_of_type(t, opts, None).prop_map(move |m| (p, m)));
    (
        gen::vol_header(),
        elevation_pattern().prop_flat_map(move |pat| {
            pat.into_iter()
                .map(|(e, n)| vec(template(), 1..=3).prop_map(move |templates| RunSpec { elevation: e, count: n, templates }))
                .collect::<Vec<_>>()
        }),
        vec(meta, 0..=6),
        vec(any::<u16>(), 0..=5),
        gen::msg_header(31, Some(true)),
    )
        .prop_map(|(header, runs, metadata, splits, msg_header)| VolumeCase { header, runs, metadata, splits, msg_header })
}

pub fn classify(c: &VolumeCase) -> CaseInfo {
    let specs_elev: Vec<u8> = c.runs.iter().flat_map(|r| std::iter::repeat(r.elevation).take(r.count as usize)).collect();
    let model = runs(&specs_elev);
    let last1 = model.last().map(|x| x.2 - x.1 == 1).unwrap_or(false);
    let any_vol = c.runs.iter().any(|r| r.templates.iter().any(|t| t.vol.is_some()));
    let first_has_vol = c.runs.first().and_then(|r| r.templates.first()).map(|t| t.vol.is_some()).unwrap_or(false);
    let mut seen = std::collections::HashSet::new();
    let revisit = model.iter().any(|x| !seen.insert(x.0));
    CaseInfo::new(model.len() >= 2 || last1 || !c.splits.is_empty() || !c.metadata.is_empty())
        .class(model.len() == 1, "single-elevation")
        .class(specs_elev.len() == 1, "single-radial")
        .class(last1, "final-run-of-one")
        .class(revisit, "repeated-elevation")
        .class(!c.splits.is_empty(), "multi-record")
        .class(!c.metadata.is_empty(), "metadata-interleaved")
        .class(any_vol && !first_has_vol, "VOL-not-in-first-radial")
        .class(!any_vol, "no-VOL")
        .class(c.runs.iter().any(|r| r.count >= 720), "720-radial-sweep")
        .class(c.runs.iter().any(|r| r.templates.iter().any(|t| t.moments.iter().flatten().any(|m| m.word_size == 16 && m.gates > 0))), "16-bit-moment")
}

/// "Full size" volume: 14 elevations x 720 radials x 6 moments.
fn full_size_case(seed: u64, index: usize) -> VolumeCase {
    let opts = DrdOpts::volume();
    let strat = (
        gen::vol_header(),
        vec(gen::drd(opts, Just(0u8).boxed(), Some(0x1FF)), 14),
        vec(any::<u16>(), 5),
        gen::msg_header(31, Some(true)),
        gen::msg_of_type(2, opts, None),
        gen::msg_of_type(5, opts, None),
    );
    let (header, templates, splits, msg_header, status, vcp) = crate::runner::draw(&strat, seed, "c01-full", index);
    VolumeCase {
        header,
        runs: templates.into_iter().enumerate().map(|(i, t)| RunSpec { elevation: (i + 1) as u8, count: 720, templates: vec![t] }).collect(),
        metadata: vec![(0, status), (0, vcp)],
        splits,
        msg_header,
    }
}

pub fn run(ctx: &Ctx, rep: &mut Report) {
    rep.journal_cases = true;
    rep.trust("independent encoder for the whole pipeline: volume header, LDM records (bzip2 via libbz2), message frames and type-31 layout; the generated spec is the independent record of what was encoded");
    rep.trust("reference model: maximal runs of equal elevation number; per-radial closed forms from C07");
    rep.assume("the message stream is split into records only at message boundaries (each record is decoded on its own by the code; the format has no other splits)");

    let opts = DrdOpts::volume();
    rep.prop(
        "volumes",
        "proptest: volume = 24-byte header + LDM records (bzip2, split at arbitrary message boundaries, empty records allowed) of a message stream whose type-31 radials follow an elevation pattern {single, single radial, ascending, SAILS-like revisits, random incl. 0/255, final run of one, a 720-radial sweep}, each radial with a random block subset and 0..64-gate 8/16-bit moments, status/VCP/other frames interleaved anywhere; oracle = spec-derived radial list, run-length sweeps, first VOL's VCP; non-trivial = >= 2 sweeps or a final run of one or >= 2 records or interleaved metadata",
        ctx.tier.pick(12_000, 300_000),
        move || volume_strategy(opts, false),
        classify,
        check_volume,
    );
    rep.prop(
        "volumes-without-vol",
        "proptest: as above but no radial carries a VOL block: scan() must report MissingCoveragePattern",
        ctx.tier.pick(1_000, 10_000),
        move || volume_strategy(opts, true),
        classify,
        check_volume,
    );
    let n_full = ctx.tier.pick(2usize, 40usize);
    for i in 0..n_full {
        let c = full_size_case(ctx.seed, i);
        let r = crate::runner::guard(|| check_volume(&c)).unwrap_or_else(|p| Err(Fail::new("panic:oracle-or-code", p)));
        if let Err(f) = r {
            rep.record_failure("volumes", f, json!(c));
        }
    }
    rep.enumerated("full-size-volumes", "seeded volumes of 14 elevations x 720 radials x 6 moments (10 080 radials), with status and VCP frames and 6 records", n_full as u64, n_full as u64, false);
    rep.sample("full-size-volumes", json!({"elevations": 14, "radials_per_elevation": 720}));

    rep.require_class("volumes", "final-run-of-one", 10);
    rep.require_class("volumes", "single-elevation", 10);
    rep.require_class("volumes", "repeated-elevation", 10);
    rep.require_class("volumes", "multi-record", 50);
    rep.require_class("volumes", "VOL-not-in-first-radial", 10);
    rep.require_class("volumes", "16-bit-moment", 10);
    if ctx.tier == Tier::Thorough {
        rep.require_class("volumes", "720-radial-sweep", 20);
    }
}

pub fn replay(sub: &str, case: &Value) -> Check {
    match sub {
        "volumes" | "volumes-without-vol" => check_volume(&from_case::<VolumeCase>(case)?),
        other => super::unknown_sub(other),
    }
}
