//! C13  Clutter filter map decodes to the encoded segment/azimuth/zone structure.

use crate::gen;
use crate::model::epoch_millis;
use crate::runner::{from_case, no_panic, CaseInfo, Check, Ctx, Fail, Report};
use crate::wire::CfmSpec;
use crate::{ensure, ensure_eq};
use nexrad_decode::messages::clutter_filter_map::{decode_clutter_filter_map, OpCode};
use proptest::collection::vec;
use proptest::prelude::*;
use serde::{Deserialize, Serialize};
use serde_json::{json, Value};

#[derive(Clone, Debug, Serialize, Deserialize)]
pub struct CfmCase {
    pub spec: CfmSpec,
    /// selectors for random interior truncation points (scaled onto the body length)
    pub cut_selectors: Vec<u16>,
}

pub fn check_structure(spec: &CfmSpec) -> Check {
    ensure!(spec.segments.len() <= 255 && spec.segments.iter().all(|s| s.len() == 360), "replay-format", "malformed CFM spec");
    let body = spec.encode();
    let m = no_panic("decode_clutter_filter_map", || decode_clutter_filter_map(&mut &body[..]))?
        .map_err(|e| Fail::new("cfm:wellformed-rejected", format!("{} segments: {:?}", spec.segments.len(), e)))?;
    {
        // the same bytes delivered in short reads must decode to the same map
        let step = if body.len() > 100_000 { 4093 } else { 7 };
        let mut r = crate::runner::Chunked::new(&body, step);
        let mc = no_panic("decode_clutter_filter_map", || decode_clutter_filter_map(&mut r))?
            .map_err(|e| Fail::new("cfm:decode-error-short-reads", format!("reader delivering {} bytes per read: {:?}", step, e)))?;
        ensure!(mc == m, "cfm:depends-on-read-chunking", "map decoded from a reader delivering {} bytes per read differs from the slice decode", step);
        // ... and from a reader positioned inside a larger source
        let lead = 28;
        let mut shifted = vec![0u8; lead];
        shifted.extend_from_slice(&body);
        let mut cur = std::io::Cursor::new(&shifted[..]);
        cur.set_position(lead as u64);
        let mp = no_panic("decode_clutter_filter_map", || decode_clutter_filter_map(&mut cur))?
            .map_err(|e| Fail::new("cfm:decode-error-at-offset", format!("reader positioned {} bytes into its source: {:?}", lead, e)))?;
        ensure!(mp == m, "cfm:depends-on-reader-position", "map decoded from a reader positioned {} bytes into its source differs from the slice decode", lead);
    }
    ensure_eq!(m.header.map_generation_date, spec.date, "cfm-layout:date@0");
    ensure_eq!(m.header.map_generation_time, spec.minutes, "cfm-layout:minutes@2");
    ensure_eq!(m.header.elevation_segment_count as usize, spec.segments.len(), "cfm-layout:segment_count@4");
    if spec.date >= 1 && spec.minutes < 1440 {
        let want = epoch_millis(spec.date, spec.minutes as u64 * 60_000);
        ensure_eq!(m.header.date_time().map(|d| d.timestamp_millis()), Some(want), "cfm:date_time");
    } else {
        // outside the documented date-time domain (C08) the accessor only has to return
        let _ = no_panic("cfm::Header::date_time", || m.header.date_time())?;
    }
    ensure_eq!(m.elevation_segments.len(), spec.segments.len(), "cfm:segment-count");
    let base = m.elevation_segments.first().map(|s| s.elevation_segment_number).unwrap_or(0);
    ensure!(base <= 1, "cfm:segment-numbering-base", "first segment is numbered {}", base);
    for (si, (seg, sseg)) in m.elevation_segments.iter().zip(spec.segments.iter()).enumerate() {
        ensure_eq!(seg.elevation_segment_number as usize, base as usize + si, "cfm:segment-numbering", "segment {}", si);
        ensure_eq!(seg.azimuth_segments.len(), 360, "cfm:azimuth-count", "segment {}", si);
        for (ai, (az, saz)) in seg.azimuth_segments.iter().zip(sseg.iter()).enumerate() {
            ensure_eq!(az.azimuth_segment as usize, ai, "cfm:azimuth-numbering", "segment {} azimuth {}", si, ai);
            ensure_eq!(az.header.range_zone_count as usize, saz.len(), "cfm:zone-count-field", "segment {} azimuth {}", si, ai);
            ensure_eq!(az.range_zones.len(), saz.len(), "cfm:zone-count", "segment {} azimuth {}", si, ai);
            for (zi, (z, (op, end))) in az.range_zones.iter().zip(saz.iter()).enumerate() {
                ensure_eq!(z.op_code, *op, "cfm:zone-op-code", "segment {} azimuth {} zone {}", si, ai, zi);
                ensure_eq!(z.end_range, *end, "cfm:zone-end-range", "segment {} azimuth {} zone {}", si, ai, zi);
                if *op <= 2 {
                    let want = [OpCode::BypassFilter, OpCode::BypassMapInControl, OpCode::ForceFilter][*op as usize];
                    crate::ensure_same!(no_panic("RangeZone::op_code", || z.op_code())?, want, "cfm:op-code-meaning", "code {}", op);
                }
            }
        }
    }
    Ok(())
}

/// Any proper prefix of a well-formed body is an error.
pub fn check_prefix(body: &[u8], cut: usize) -> Check {
    ensure!(cut < body.len(), "replay-format", "cut is not a proper prefix");
    let r = no_panic("decode_clutter_filter_map", || decode_clutter_filter_map(&mut &body[..cut]))?;
    ensure!(
        r.is_err(),
        "cfm:truncated-body-accepted",
        "body of {} bytes cut at {} decoded without error ({} segments returned)",
        body.len(),
        cut,
        r.as_ref().map(|m| m.elevation_segments.len()).unwrap_or(0)
    );
    Ok(())
}

pub fn cut_points(spec: &CfmSpec, body_len: usize, selectors: &[u16]) -> Vec<usize> {
    let bounds = spec.azimuth_boundaries();
    let mut cuts: Vec<usize> = Vec::new();
    // every point within the first two azimuth segments (and the header); bounded for big bodies
    let dense_cap = if body_len <= 20_000 { 800 } else { 160 };
    let dense_end = bounds.get(2).copied().unwrap_or(body_len).min(body_len).min(dense_cap);
    cuts.extend(0..dense_end);
    // +-3 bytes around azimuth-segment boundaries (all of them for small bodies, sampled for big ones)
    let groups = if body_len <= 20_000 { 400 } else { 40 };
    let step = (bounds.len() / groups).max(1);
    for b in bounds.iter().step_by(step) {
        for d in -3i64..=3 {
            let c = *b as i64 + d;
            if c >= 0 && (c as usize) < body_len {
                cuts.push(c as usize);
            }
        }
    }
    for s in selectors {
        if body_len > 0 {
            cuts.push((*s as usize * body_len) >> 16);
        }
    }
    // every point inside the last azimuth segment of the last elevation segment (bounded) and the final bytes:
    // a cut there is followed by no further read that could notice it
    if bounds.len() >= 2 {
        let last_start = bounds[bounds.len() - 2];
        cuts.extend(last_start.max(body_len.saturating_sub(600))..body_len);
    }
    cuts.extend(body_len.saturating_sub(64)..body_len);
    if body_len > 0 {
        cuts.push(body_len - 1);
    }
    cuts.sort_unstable();
    cuts.dedup();
    cuts
}

pub fn check_case(c: &CfmCase) -> Check {
    // history: for half of the cases the failing truncated decodes run *before* the structural comparison
    let cuts_first = c.cut_selectors.len() % 2 == 1;
    if !cuts_first {
        check_structure(&c.spec)?;
    }
    let body = c.spec.encode();
    // bound the truncation work on very large bodies
    let sel: &[u16] = if body.len() > 400_000 { &c.cut_selectors[..c.cut_selectors.len().min(8)] } else { &c.cut_selectors };
    let mut cuts = cut_points(&c.spec, body.len(), sel);
    if body.len() > 400_000 {
        let keep: Vec<usize> = cuts.iter().copied().step_by((cuts.len() / 60).max(1)).collect();
        cuts = keep;
    }
    for cut in cuts {
        check_prefix(&body, cut)?;
    }
    if cuts_first {
        check_structure(&c.spec)?;
    }
    Ok(())
}

pub fn count_cuts(c: &CfmCase) -> u64 {
    let body_len = c.spec.encode().len();
    cut_points(&c.spec, body_len, &c.cut_selectors).len() as u64
}

fn segment_count(tier_big: bool) -> BoxedStrategy<usize> {
    if tier_big {
        prop_oneof![3 => 0usize..=5, 1 => 6usize..=40, 1 => Just(255usize)].boxed()
    } else {
        prop_oneof![8 => 0usize..=5, 2 => Just(2usize), 1 => 6usize..=12].boxed()
    }
}

fn case_strategy(big: bool) -> impl Strategy<Value = CfmCase> {
    (gen::cfm(segment_count(big)), vec(any::<u16>(), 0..=40)).prop_map(|(spec, cut_selectors)| CfmCase { spec, cut_selectors })
}

/// A body with huge zone counts (up to 65535) in a few azimuths, S small.
fn big_zone_case(seed: u64) -> CfmCase {
    let strat = (gen::cfm(Just(1usize).boxed()), vec(any::<u16>(), 4), vec(0usize..360, 3), vec(prop_oneof![Just(65_535usize), 26usize..=65_535], 3));
    let (mut spec, sel, azs, counts) = crate::runner::draw(&strat, seed, "c13-big-zones", 0);
    for (a, n) in azs.iter().zip(counts.iter()) {
        spec.segments[0][*a] = (0..*n).map(|i| ((i % 3) as u16, i as u16)).collect();
    }
    CfmCase { spec, cut_selectors: sel }
}

/// One-segment body in which the azimuths listed in `at` carry `count` zones each (all others none).
#[derive(Clone, Debug, Serialize, Deserialize)]
pub struct ZoneCountCase {
    pub count: u32,
    pub at: Vec<u16>,
}

pub fn zone_count_spec(c: &ZoneCountCase) -> CfmSpec {
    let mut seg: Vec<Vec<(u16, u16)>> = vec![Vec::new(); 360];
    for a in &c.at {
        seg[*a as usize % 360] = (0..c.count.min(65_535)).map(|i| (((i + *a as u32) % 3) as u16, (i as u16).wrapping_mul(7).wrapping_add(*a))).collect();
    }
    CfmSpec { date: 20_000, minutes: 61, segments: vec![seg] }
}

pub fn check_zone_count(c: &ZoneCountCase) -> Check {
    let spec = zone_count_spec(c);
    check_structure(&spec)?;
    let body = spec.encode();
    // a proper prefix is an error: one byte short, one zone short, and cut right after the last zone count
    for cut in [body.len() - 1, body.len().saturating_sub(4), body.len().saturating_sub(4 * c.count as usize).max(1)] {
        if cut < body.len() {
            check_prefix(&body, cut)?;
        }
    }
    Ok(())
}

pub fn run(ctx: &Ctx, rep: &mut Report) {
    rep.journal_cases = true;
    rep.trust("independent wire encoder: 3-halfword header, per azimuth a zone count followed by (op code, end range) pairs");
    rep.assume("segment numbers must be consecutive; the first may be 0 or 1 (the statement fixes order, not base)");

    // fixed shapes every run: S = 0, 1, 2, 5, 255 and a body with zone counts up to 65535
    {
        let mut fixed: Vec<CfmCase> = Vec::new();
        for (i, s) in [0usize, 1, 2, 5, 255].iter().enumerate() {
            let strat = (gen::cfm(Just(*s).boxed()), vec(any::<u16>(), 12));
            let (spec, sel) = crate::runner::draw(&strat, ctx.seed, "c13-fixed", i);
            fixed.push(CfmCase { spec, cut_selectors: sel });
        }
        fixed.push(big_zone_case(ctx.seed));
        // aggregate size: the largest maps of the stated domain (255 segments x 360 azimuths x 25 zones = 2.3 M zones)
        // and a map with 40 azimuths of 65535 zones (2.6 M zones): limits on the map as a whole, not on one field
        {
            let seg: Vec<Vec<(u16, u16)>> = (0..360usize).map(|a| (0..25usize).map(|i| (((a + i) % 3) as u16, (a * 31 + i * 7) as u16)).collect()).collect();
            fixed.push(CfmCase { spec: CfmSpec { date: 20_000, minutes: 7, segments: vec![seg; 255] }, cut_selectors: vec![9, 40_000] });
            let mut seg2: Vec<Vec<(u16, u16)>> = vec![Vec::new(); 360];
            for a in (0..360usize).step_by(9) {
                seg2[a] = (0..65_535usize).map(|i| ((i % 3) as u16, (i as u16).wrapping_mul(3))).collect();
            }
            fixed.push(CfmCase { spec: CfmSpec { date: 20_001, minutes: 8, segments: vec![seg2] }, cut_selectors: vec![5] });
        }
        // degenerate headers: every header field zero (a six-zero-byte body is a well-formed empty map)
        fixed.push(CfmCase { spec: CfmSpec { date: 0, minutes: 0, segments: vec![] }, cut_selectors: vec![1, 2, 3] });
        fixed.push(CfmCase { spec: CfmSpec { date: 0, minutes: 0, segments: vec![vec![Vec::new(); 360]] }, cut_selectors: vec![] });
        fixed.push(CfmCase { spec: CfmSpec { date: 0, minutes: 1, segments: vec![] }, cut_selectors: vec![] });
        fixed.push(CfmCase { spec: CfmSpec { date: 65_535, minutes: 65_535, segments: vec![] }, cut_selectors: vec![] });
        let mut cuts = 0u64;
        for c in &fixed {
            cuts += 1 + count_cuts(c).min(2000);
            let r = crate::runner::guard(|| check_case(c)).unwrap_or_else(|p| Err(Fail::new("panic:oracle-or-code", p)));
            if let Err(f) = r {
                rep.record_failure("bodies-and-truncations", f, json!(c));
            }
        }
        rep.enumerated("fixed-shapes", "seeded bodies with S = 0, 1, 2, 5, 255 segments, one body whose azimuths carry up to 65535 zones, two maps of maximal aggregate size (255 x 360 x 25 zones; 40 azimuths of 65535 zones), and four degenerate headers (all-zero six-byte body, zero date with one empty segment, zero date with time 1, all-ones date/time), each with its truncation sweep", cuts, cuts, false);
        rep.sample("fixed-shapes", json!({"segments": 255}));
    }

    // zone-count sweep (length-dependent decoding paths): quick = every power of two and every multiple of 1024
    // with its neighbours (-1, +0, +1) plus 0..=300, in the first / a middle / the last azimuth; thorough = every
    // count 0..=65535 in the last azimuth
    {
        let mut cases: Vec<ZoneCountCase> = Vec::new();
        let mut counts: Vec<u32> = (0..=300).collect();
        for j in 0..16u32 {
            for d in [-1i64, 0, 1] {
                counts.push(((1i64 << j) + d).clamp(0, 65_535) as u32);
            }
        }
        for k in 1..64u32 {
            for d in [-1i64, 0, 1] {
                counts.push((k as i64 * 1024 + d).clamp(0, 65_535) as u32);
            }
        }
        counts.push(65_535);
        counts.push(65_534);
        counts.sort_unstable();
        counts.dedup();
        for (i, c) in counts.iter().enumerate() {
            let at = match i % 4 {
                0 => vec![359],
                1 => vec![0],
                2 => vec![200, 359],
                _ => vec![0, 1, 358],
            };
            cases.push(ZoneCountCase { count: *c, at });
        }
        if ctx.tier == crate::runner::Tier::Thorough {
            for c in 0..=65_535u32 {
                cases.push(ZoneCountCase { count: c, at: vec![359] });
            }
        }
        let n = cases.len() as u64;
        let fails = std::sync::Mutex::new(Vec::new());
        let next = std::sync::atomic::AtomicUsize::new(0);
        std::thread::scope(|sc| {
            for _ in 0..ctx.threads.max(1) {
                sc.spawn(|| loop {
                    let i = next.fetch_add(1, std::sync::atomic::Ordering::Relaxed);
                    if i >= cases.len() {
                        break;
                    }
                    let c = &cases[i];
                    let r = crate::runner::guard(|| check_zone_count(c)).unwrap_or_else(|p| Err(Fail::new("panic:oracle-or-code", p)));
                    if let Err(f) = r {
                        fails.lock().unwrap_or_else(|e| e.into_inner()).push((i, f));
                    }
                });
            }
        });
        let mut fails = fails.into_inner().unwrap_or_else(|e| e.into_inner());
        fails.sort_by_key(|x| x.0);
        for (i, f) in fails {
            rep.record_failure("zone-count-sweep", f, json!(cases[i]));
        }
        let exhaustive = ctx.tier == crate::runner::Tier::Thorough;
        rep.enumerated(
            "zone-count-sweep",
            "one-segment bodies whose first / middle / last azimuths declare c zones: quick c in 0..=300, every 2^j and every multiple of 1024 with neighbours -1/+0/+1, 65534, 65535; thorough additionally EVERY c in 0..=65535 in the last azimuth; structure comparison plus three proper prefixes; non-trivial = c > 25 (beyond the ICD maximum)",
            n,
            cases.iter().filter(|c| c.count > 25).count() as u64,
            exhaustive,
        );
        rep.sample("zone-count-sweep", json!({"count": 1024, "at": [359]}));
    }

    let big = ctx.tier == crate::runner::Tier::Thorough;
    rep.prop(
        "bodies-and-truncations",
        "proptest: bodies with S elevation segments (0,1,2,5 common; up to 40 and 255 in the thorough tier) x 360 azimuths x 0..=25 zones of arbitrary values, decoded and compared structurally; then every truncation point inside the first two azimuth segments, +-3 bytes around azimuth-segment boundaries and up to 40 random points must be errors; non-trivial = S >= 2 with >= 2 distinct zone counts",
        ctx.tier.pick(1_500, 14_000),
        move || case_strategy(big),
        |c| {
            let mut counts = std::collections::HashSet::new();
            for s in &c.spec.segments {
                for a in s {
                    counts.insert(a.len());
                }
            }
            CaseInfo::new(c.spec.segments.len() >= 2 && counts.len() >= 2)
                .class(c.spec.segments.is_empty(), "zero-segments")
                .class(c.spec.segments.len() == 1, "one-segment")
                .class(c.spec.segments.len() > 5, "more-than-5-segments")
                .class(c.spec.segments.len() == 255, "255-segments")
        },
        check_case,
    );
    rep.require_class("bodies-and-truncations", "zero-segments", 3);
}

pub fn replay(sub: &str, case: &Value) -> Check {
    match sub {
        "zone-count-sweep" => check_zone_count(&from_case::<ZoneCountCase>(case)?),
        "bodies-and-truncations" => check_case(&from_case::<CfmCase>(case)?),
        other => super::unknown_sub(other),
    }
}
