//! C08  ICD date/time fields decode to the exact UTC instant.
//!
//! Exhaustive over all 65 535 day counts for each of the seven carriers; oracle = closed-form epoch
//! arithmetic plus Hinnant's civil-from-days (no chrono in the oracle).

use crate::model::{civil_from_millis, civil_of, epoch_millis};
use crate::runner::{from_case, hash_bytes, no_panic, CaseInfo, Check, Ctx, Fail, Report};
use crate::wire::{self, put16};
use crate::{ensure, ensure_eq};
use chrono::{DateTime, Utc};
use nexrad_decode::messages::{clutter_filter_map, decode_message_header, digital_radar_data, rda_status_data};
use serde::{Deserialize, Serialize};
use serde_json::{json, Value};
use std::io::Cursor;

pub const CARRIERS_MS: [&str; 5] = ["message_header", "radial_header", "radial_model_timestamp", "radial_model_time", "volume_header"];
pub const CARRIERS_MIN: [&str; 3] = ["rda_bypass_map", "rda_clutter_map", "cfm_header"];

#[derive(Clone, Debug, Serialize, Deserialize)]
pub struct Case {
    pub carrier: String,
    pub date: u32,
    /// milliseconds for the ms carriers, minutes for the minute carriers
    pub time: u32,
}

/// Deterministic "noise" for the fields next to the (date, time) pair under test: a pure function of the pair, so
/// every generator and enumerator of this file covers it and replays need no extra field. Boundary values of the
/// neighbouring pair's own domain are boosted (a neighbour at its end-of-day / zero / maximum value must not
/// leak into the pair under test).
fn noise(date: u32, time: u32, salt: u64) -> u64 {
    let mut x = ((date as u64) << 32 | time as u64) ^ salt.wrapping_mul(0x9E37_79B9_7F4A_7C15);
    x ^= x >> 33;
    x = x.wrapping_mul(0xFF51_AFD7_ED55_8CCD);
    x ^= x >> 33;
    x = x.wrapping_mul(0xC4CE_B9FE_1A85_EC53);
    x ^ (x >> 33)
}

fn neighbour_minutes(date: u32, time: u32) -> u16 {
    const T: [u16; 7] = [0, 1, 1439, 1440, 1441, 0x7FFF, 0xFFFF];
    let n = noise(date, time, 1);
    match n % 10 {
        k @ 0..=6 => T[k as usize],
        _ => (n >> 16) as u16,
    }
}

fn neighbour_date(date: u32, time: u32) -> u16 {
    let n = noise(date, time, 2);
    match n % 8 {
        0 => 0,
        1 => 1,
        2 => date as u16,
        3 => 0xFFFF,
        _ => (n >> 16) as u16,
    }
}

/// Calls the carrier's accessor. Ok(None) = accessor returned None.
fn accessor(carrier: &str, date: u32, time: u32) -> Result<Option<i64>, Fail> {
    let conv = |dt: Option<DateTime<Utc>>| dt.map(|d| d.timestamp_millis());
    match carrier {
        "message_header" => {
            let n = noise(date, time, 3);
            let h = wire::MsgHeaderSpec {
                rpg: n.to_be_bytes().repeat(2)[..12].try_into().unwrap_or([0; 12]),
                size: if n % 5 == 0 { 0xFFFF } else { (n >> 8) as u16 },
                channel: (n >> 24) as u8,
                mtype: (n >> 32) as u8,
                seq: (n >> 40) as u16,
                date: date as u16,
                time,
                seg_count: neighbour_date(date, time),
                seg_num: neighbour_minutes(date, time),
            };
            let bytes = h.encode();
            let hdr = decode_message_header(&mut &bytes[..]).map_err(|e| Fail::new("decode-error", format!("{:?}", e)))?;
            Ok(conv(hdr.date_time()))
        }
        "radial_header" | "radial_model_timestamp" | "radial_model_time" => {
            let h = wire::DrdHeaderSpec {
                radar_id: *b"KTLX",
                time,
                date: date as u16,
                az_num: 1,
                az_angle_bits: 0,
                compression: 0,
                spare: 0,
                radial_length: 0,
                az_spacing: 1,
                status: 1,
                elev_num: 1,
                cut_sector: 0,
                elev_angle_bits: 0,
                spot: 0,
                az_index: 0,
            };
            let bytes = h.encode(0);
            let msg = digital_radar_data::decode_digital_radar_data(&mut Cursor::new(&bytes[..]))
                .map_err(|e| Fail::new("decode-error", format!("{:?}", e)))?;
            if carrier == "radial_header" {
                Ok(conv(msg.header.date_time()))
            } else if carrier == "radial_model_time" {
                // the model radial's chrono view of the same instant (nexrad-model feature chrono)
                match msg.into_radial() {
                    Ok(r) => Ok(conv(r.collection_time())),
                    Err(_) => Ok(None),
                }
            } else {
                match msg.radial() {
                    Ok(r) => Ok(Some(r.collection_timestamp())),
                    Err(_) => Ok(None),
                }
            }
        }
        "volume_header" => {
            // the text fields around the pair are noise too: every tape filename the ICD knows (the legacy
            // "ARCHIVE2." and the versioned "AR2V00xx." ones) and arbitrary bytes, extension numbers, site identifiers
            let n = noise(date, time, 7);
            const TAPES: [&[u8; 9]; 8] = [b"AR2V0006.", b"ARCHIVE2.", b"AR2V0001.", b"AR2V0002.", b"AR2V0003.", b"AR2V0004.", b"AR2V0007.", b"AR2V0008."];
            let tape: [u8; 9] = if n % 10 == 9 { let b = n.to_be_bytes(); [b[0], b[1], b[2], b[3], b[4], b[5], b[6], b[7], b[0] ^ b[7]] } else { *TAPES[(n % 9).min(7) as usize] };
            let ext = [b'0' + ((n >> 8) % 10) as u8, b'0' + ((n >> 12) % 10) as u8, b'0' + ((n >> 16) % 10) as u8];
            const SITES: [&[u8; 4]; 6] = [b"KTLX", b"PHWA", b"TJUA", b"NOP4", b"DAN1", b"\0\0\0\0"];
            let h = wire::VolHeaderSpec { tape, ext, date, time, icao: *SITES[((n >> 20) % 6) as usize] };
            let bytes = h.encode();
            let hdr = nexrad_data::volume::Header::deserialize(&mut &bytes[..])
                .map_err(|e| Fail::new("decode-error", format!("{:?}", e)))?;
            Ok(conv(hdr.date_time()))
        }
        "rda_bypass_map" | "rda_clutter_map" => {
            // every other halfword of the message carries noise; the *other* map's (date, time) pair gets boundary
            // values of its own domain (0, 1439, 1440, 1441, ...) boosted
            let mut b: Vec<u8> = (0..120u64).map(|i| (noise(date, time, 100 + i / 8) >> (8 * (i % 8))) as u8).collect();
            // halfwords 19/20 = bypass map date/time, 21/22 = clutter filter map date/time
            let (hd, ht) = if carrier == "rda_bypass_map" { (19, 20) } else { (21, 22) };
            let (od, ot) = if carrier == "rda_bypass_map" { (21, 22) } else { (19, 20) };
            put16(&mut b, 2 * (od - 1), neighbour_date(date, time));
            put16(&mut b, 2 * (ot - 1), neighbour_minutes(date, time));
            put16(&mut b, 2 * (hd - 1), date as u16);
            put16(&mut b, 2 * (ht - 1), time as u16);
            let m = rda_status_data::decode_rda_status_message(&mut &b[..])
                .map_err(|e| Fail::new("decode-error", format!("{:?}", e)))?;
            if carrier == "rda_bypass_map" {
                Ok(conv(m.bypass_map_generation_date_time()))
            } else {
                Ok(conv(m.clutter_filter_map_generation_date_time()))
            }
        }
        "cfm_header" => {
            let mut b = vec![0u8; 6];
            put16(&mut b, 0, date as u16);
            put16(&mut b, 2, time as u16);
            let m = clutter_filter_map::decode_clutter_filter_map(&mut &b[..])
                .map_err(|e| Fail::new("decode-error", format!("{:?}", e)))?;
            Ok(conv(m.header.date_time()))
        }
        other => Err(Fail::new("replay-format", format!("unknown carrier {}", other))),
    }
}

fn is_minute_carrier(carrier: &str) -> bool {
    CARRIERS_MIN.contains(&carrier)
}

/// In-domain oracle: the accessor returns exactly epoch + (d-1) days + t.
pub fn check_in_domain(c: &Case) -> Check {
    let unit: u64 = if is_minute_carrier(&c.carrier) { 60_000 } else { 1 };
    let expect = epoch_millis(c.date as u16, c.time as u64 * unit);
    let got = no_panic(&format!("date_time[{}]", c.carrier), || accessor(&c.carrier, c.date, c.time))??;
    let got = match got {
        Some(g) => g,
        None => {
            return Err(Fail::new(
                format!("none-in-domain:{}", c.carrier),
                format!("{} returned None for in-domain date={} time={}", c.carrier, c.date, c.time),
            ))
        }
    };
    ensure_eq!(got, expect, format!("wrong-instant:{}", c.carrier), "date={} time={}", c.date, c.time);
    // second, independent computation: broken-down civil fields
    if c.carrier != "radial_model_timestamp" {
        let dt = DateTime::<Utc>::from_timestamp_millis(got)
            .ok_or_else(|| Fail::new("oracle", "chrono cannot represent instant"))?;
        let civil = civil_of(&dt);
        let want = civil_from_millis(expect);
        ensure_eq!(civil, want, format!("wrong-civil:{}", c.carrier), "date={} time={}", c.date, c.time);
    }
    Ok(())
}

/// Out-of-domain clause: the accessor returns (anything) without panicking.
pub fn check_no_panic(c: &Case) -> Check {
    no_panic(&format!("date_time[{}]", c.carrier), || accessor(&c.carrier, c.date, c.time))?.map(|_| ())
}

fn leap_or_month_boundary(d: u32) -> bool {
    let (_, _, day) = crate::model::civil_from_days(d as i64 - 1);
    let (_, m2, day2) = crate::model::civil_from_days(d as i64);
    day == 1 || day2 == 1 || (m2 == 2 && day2 == 29)
}

pub fn run(ctx: &Ctx, rep: &mut Report) {
    // the data crate's conversion path (File::scan): day counts that change from one radial to the next
    {
        use proptest::prelude::*;
        let stamp = || {
            (
                prop_oneof![3 => 1u16..=65_535, 1 => Just(1u16), 1 => Just(65_535u16), 2 => 19_999u16..=20_001],
                prop_oneof![2 => 0u32..86_400_000, 1 => Just(0u32), 1 => Just(86_399_999u32), 1 => 86_399_000u32..86_400_000],
            )
        };
        rep.prop(
            "scan-path",
            "proptest: volumes of 1..12 radials whose headers carry arbitrary (day count, time) pairs - equal, consecutive across midnight, decreasing, 65535 next to 1 - in one or several records, converted by File::scan; oracle = every radial's collection timestamp is the closed form of its own header; non-trivial = >= 2 different day counts inside the volume",
            ctx.tier.pick(3_000, 200_000),
            move || {
                let seq = prop_oneof![
                    3 => proptest::collection::vec(stamp(), 1..=12),
                    2 => (1u16..65_535, 86_390_000u32..86_400_000, 1usize..6).prop_map(|(d, t, k)| {
                        // crossing midnight after k radials
                        let mut v: Vec<(u16, u32)> = (0..k).map(|i| (d, t + i as u32)).collect();
                        v.extend((0..3).map(|i| (d + 1, i as u32 * 500)));
                        v
                    }),
                ];
                (seq, proptest::collection::vec(any::<u16>(), 0..=2)).prop_map(|(stamps, splits)| ScanPathCase { stamps, splits })
            },
            |c: &ScanPathCase| {
                let mut days: Vec<u16> = c.stamps.iter().map(|s| s.0).collect();
                days.dedup();
                CaseInfo::new(days.len() >= 2).class(c.splits.is_empty(), "single-record").class(days.len() >= 2 && c.splits.is_empty(), "date-change-inside-a-record")
            },
            check_scan_path,
        );
        rep.require_class("scan-path", "date-change-inside-a-record", 50);
    }
    {
        use proptest::prelude::*;
        let stamp = || {
            (
                prop_oneof![3 => 1u16..=65_535, 1 => Just(1u16), 1 => Just(65_535u16), 2 => 19_999u16..=20_001],
                prop_oneof![2 => 0u32..86_400_000, 1 => Just(0u32), 1 => Just(86_399_999u32)],
            )
        };
        rep.prop(
            "segment-runs",
            "proptest: 1..8 frames of one fixed-length type (2, 3, 5, 13, 15, 18, 32, random) forming segments 1..n of n (or all '1 of 1', or numbered downwards), each header with its own (day count, time), optionally behind frames of another type, decoded by decode_messages and Record::messages; oracle = every message's header date-time is the closed form of its own header; non-trivial = a well-formed run of >= 2 segments with >= 2 different instants",
            ctx.tier.pick(4_000, 200_000),
            move || {
                (
                    prop_oneof![1 => Just(2u8), 1 => Just(3u8), 1 => Just(5u8), 2 => Just(13u8), 3 => Just(15u8), 2 => Just(18u8), 1 => Just(32u8), 1 => any::<u8>().prop_filter("fixed-length", |t| *t != 31)],
                    proptest::collection::vec(stamp(), 1..=8),
                    prop_oneof![3 => Just(0u8), 1 => Just(1u8), 1 => Just(2u8)],
                    0u8..3,
                )
                    .prop_map(|(mtype, stamps, numbering, lead)| SegmentRunCase { mtype, stamps, numbering, lead })
            },
            |c: &SegmentRunCase| {
                let mut distinct = c.stamps.clone();
                distinct.sort();
                distinct.dedup();
                CaseInfo::new(c.numbering % 3 == 0 && c.stamps.len() >= 2 && distinct.len() >= 2).class(c.numbering % 3 == 0 && c.stamps.len() >= 2, "well-formed-multi-segment-run")
            },
            check_segment_run,
        );
        rep.require_class("segment-runs", "well-formed-multi-segment-run", 100);
    }
    rep.trust("closed-form epoch arithmetic (d-1)*86_400_000 + t and Hinnant civil_from_days in harness/src/model.rs");
    rep.trust("independent wire encoder harness/src/wire.rs (field offsets of the date/time carriers)");
    rep.assume("chrono's DateTime::timestamp_millis and calendar field getters are used only to read the value the accessor returned");

    let extra_t = ctx.tier.pick(2u32, 20u32);
    let threads = ctx.threads.max(1);
    let seed = ctx.seed;

    // ---- in-domain, exhaustive over days -----------------------------------------------------
    let results: Vec<(u64, u64, Vec<(Fail, Case)>, Vec<Value>)> = std::thread::scope(|scope| {
        let handles: Vec<_> = (0..threads)
            .map(|w| {
                scope.spawn(move || {
                    let mut evals = 0u64;
                    let mut nontrivial = 0u64;
                    let mut fails: Vec<(Fail, Case)> = Vec::new();
                    let mut samples = Vec::new();
                    let mut d = 1 + w as u32;
                    while d <= 65_535 {
                        let boundary = leap_or_month_boundary(d);
                        for carrier in CARRIERS_MS {
                            let mut times = vec![0u32, 1, 43_200_000, 86_399_999];
                            for k in 0..extra_t {
                                let h = hash_bytes(format!("{}|{}|{}|{}", seed, carrier, d, k).as_bytes());
                                times.push((h % 86_400_000) as u32);
                            }
                            let mut prev: Option<i64> = None;
                            times.sort_unstable();
                            times.dedup();
                            for t in times {
                                let c = Case { carrier: carrier.to_string(), date: d, time: t };
                                evals += 1;
                                if boundary || t == 86_399_999 {
                                    nontrivial += 1;
                                    if samples.len() < 2 && w == 0 {
                                        samples.push(json!(c));
                                    }
                                }
                                match check_in_domain(&c) {
                                    Ok(()) => {
                                        // strict monotonicity along the enumeration order within the day
                                        let v = epoch_millis(d as u16, t as u64);
                                        if let Some(p) = prev {
                                            if v <= p {
                                                fails.push((Fail::new("oracle", "enumeration not increasing"), c.clone()));
                                            }
                                        }
                                        prev = Some(v);
                                    }
                                    Err(f) => {
                                        if fails.iter().all(|(g, _)| g.sig != f.sig) {
                                            fails.push((f, c));
                                        }
                                    }
                                }
                            }
                        }
                        for carrier in CARRIERS_MIN {
                            let mut times = vec![0u32, 1, 1439];
                            let h = hash_bytes(format!("{}|{}|{}", seed, carrier, d).as_bytes());
                            times.push((h % 1440) as u32);
                            times.sort_unstable();
                            times.dedup();
                            for t in times {
                                let c = Case { carrier: carrier.to_string(), date: d, time: t };
                                evals += 1;
                                if boundary || t == 1439 {
                                    nontrivial += 1;
                                }
                                if let Err(f) = check_in_domain(&c) {
                                    if fails.iter().all(|(g, _)| g.sig != f.sig) {
                                        fails.push((f, c));
                                    }
                                }
                            }
                        }
                        d += threads as u32;
                    }
                    (evals, nontrivial, fails, samples)
                })
            })
            .collect();
        handles.into_iter().map(|h| h.join().expect("worker")).collect()
    });
    let rule = "enumeration: every day count 1..=65535 x {0,1,noon,86_399_999,seeded extras} ms for the four millisecond carriers and x {0,1,1439,seeded} minutes for the three minute carriers; non-trivial = day adjacent to a month start / leap day, or last ms/minute of the day; every (carrier,day,time) point is distinct by construction";
    for (evals, nt, fails, samples) in results {
        rep.enumerated("in-domain-all-days", rule, evals, nt, true);
        for s in samples {
            rep.sample("in-domain-all-days", s);
        }
        for (f, c) in fails {
            rep.record_failure("in-domain", f, json!(c));
        }
    }

    // ---- all 1440 minutes x 64 sampled days for the minute carriers -----------------------------
    let mut evals = 0u64;
    let mut nt = 0u64;
    for k in 0..64u32 {
        let d = 1 + (hash_bytes(format!("{}|minute-days|{}", seed, k).as_bytes()) % 65_535) as u32;
        for carrier in CARRIERS_MIN {
            let mut prev = None;
            for t in 0..1440u32 {
                let c = Case { carrier: carrier.to_string(), date: d, time: t };
                evals += 1;
                if t % 60 == 59 {
                    nt += 1;
                }
                match check_in_domain(&c) {
                    Ok(()) => {
                        let v = epoch_millis(d as u16, t as u64 * 60_000);
                        if let Some(p) = prev {
                            if v <= p {
                                rep.record_failure("all-minutes", Fail::new("oracle", "not increasing"), json!(c));
                            }
                        }
                        prev = Some(v);
                    }
                    Err(f) => rep.record_failure("in-domain", f, json!(c)),
                }
            }
        }
    }
    rep.enumerated(
        "all-minutes",
        "all 1440 minutes x 64 seeded days x 3 minute carriers; non-trivial = last minute of an hour",
        evals,
        nt,
        true,
    );
    rep.sample("all-minutes", json!({"carrier": "cfm_header", "date": 20000, "time": 1439}));

    // ---- first call on a brand-new thread (caches and memo tables start empty there) ----------------
    {
        let mut n = 0u64;
        let firsts: [u32; 7] = [65_535, 1, 32_767, 32_768, 2, 65_534, 20_000];
        for carrier in CARRIERS_MS.iter().chain(CARRIERS_MIN.iter()) {
            for (i, d) in firsts.iter().enumerate() {
                let carrier = carrier.to_string();
                let minute = is_minute_carrier(&carrier);
                let seq: Vec<Case> = vec![
                    Case { carrier: carrier.clone(), date: *d, time: if minute { 1439 } else { 86_399_999 } },
                    Case { carrier: carrier.clone(), date: firsts[(i + 1) % firsts.len()], time: 0 },
                    Case { carrier: carrier.clone(), date: *d, time: 0 },
                ];
                n += seq.len() as u64;
                let r = std::thread::spawn(move || {
                    for c in &seq {
                        if let Err(f) = check_in_domain(c) {
                            return Some((f, c.clone()));
                        }
                    }
                    None
                })
                .join();
                match r {
                    Ok(Some((f, c))) => rep.record_failure("in-domain", f, json!(c)),
                    Ok(None) => {}
                    Err(_) => rep.record_failure("in-domain", Fail::new("panic:oracle-or-code", "fresh-thread probe panicked"), Value::Null),
                }
            }
        }
        rep.enumerated(
            "fresh-thread-first-calls",
            "each carrier evaluated as the FIRST date-time conversion on a brand-new thread for day counts {65535, 1, 32767, 32768, 2, 65534, 20000}, followed by another day and the first one again on the same thread",
            n,
            n,
            false,
        );
        rep.sample("fresh-thread-first-calls", json!({"carrier": "message_header", "date": 65535, "time": 86_399_999}));
    }

    // ---- cross-crate agreement for equal (d, t) is implied by both equalling the closed form -----

    // ---- out-of-domain: no panic ---------------------------------------------------------------
    let mut evals = 0u64;
    let mut ood: Vec<Case> = Vec::new();
    let big_t = [86_400_000u32, 86_400_001, 100_000_000, 0x7FFF_FFFF, 0x8000_0000, u32::MAX];
    for carrier in CARRIERS_MS {
        for &t in big_t.iter().chain([0u32, 1, 86_399_999].iter()) {
            ood.push(Case { carrier: carrier.to_string(), date: 0, time: t });
        }
        for d in [1u32, 2, 365, 20_000, 65_535] {
            for &t in &big_t {
                ood.push(Case { carrier: carrier.to_string(), date: d, time: t });
            }
        }
    }
    for d in [65_536u32, 65_537, 100_000, 0x7FFF_FFFF, 0x8000_0000, u32::MAX] {
        for t in [0u32, 86_399_999, u32::MAX] {
            ood.push(Case { carrier: "volume_header".into(), date: d, time: t });
        }
    }
    for carrier in CARRIERS_MIN {
        for d in [0u32, 1, 65_535] {
            for t in [1440u32, 1441, 10_000, 32_767, 32_768, 65_535] {
                ood.push(Case { carrier: carrier.to_string(), date: d, time: t });
            }
        }
        ood.push(Case { carrier: carrier.to_string(), date: 0, time: 0 });
    }
    // all minutes 0..=65535 for one day per minute carrier, all u16 dates at t = u32::MAX for ms carriers
    for carrier in CARRIERS_MIN {
        for t in 0..=65_535u32 {
            evals += 1;
            let c = Case { carrier: carrier.to_string(), date: 12_345, time: t };
            if let Err(f) = check_no_panic(&c) {
                rep.record_failure("out-of-domain-no-panic", f, json!(c));
            }
        }
    }
    for carrier in CARRIERS_MS {
        for d in (0..=65_535u32).step_by(257) {
            evals += 1;
            let c = Case { carrier: carrier.to_string(), date: d, time: u32::MAX };
            if let Err(f) = check_no_panic(&c) {
                rep.record_failure("out-of-domain-no-panic", f, json!(c));
            }
        }
    }
    let n_ood = ood.len() as u64;
    for c in &ood {
        evals += 1;
        if let Err(f) = check_no_panic(c) {
            rep.record_failure("out-of-domain-no-panic", f, json!(c));
        }
    }
    rep.enumerated(
        "out-of-domain-no-panic",
        "fixed out-of-range grid: day 0, time >= 24h up to u32::MAX, minutes 1440..=65535 (all 65536 for one day), volume-header dates > 65535; every point counts as non-trivial (all are outside the documented domain)",
        evals,
        n_ood,
        false,
    );
    rep.sample("out-of-domain-no-panic", json!(ood[0]));
}

/// The data crate's path to the same instant: radials with the given (day count, time) pairs, in one volume,
/// converted by `File::scan`; every radial must carry its own header's instant (dates may change inside a record).
#[derive(Clone, Debug, serde::Serialize, serde::Deserialize)]
pub struct ScanPathCase {
    pub stamps: Vec<(u16, u32)>,
    pub splits: Vec<u16>,
}

pub fn check_scan_path(c: &ScanPathCase) -> Check {
    use crate::props::c01;
    use crate::wire::*;
    let template = |date: u16, time: u32| DrdSpec {
        header: DrdHeaderSpec { radar_id: *b"KTLX", time, date, az_num: 1, az_angle_bits: 1.5f32.to_bits(), compression: 0, spare: 0, radial_length: 0, az_spacing: 1, status: 1, elev_num: 1, cut_sector: 0, elev_angle_bits: 0.5f32.to_bits(), spot: 0, az_index: 0 },
        vol: Some(VolSpec { id_type: b'R', lrtup: 52, major: 1, minor: 0, lat_bits: 35.0f32.to_bits(), lon_bits: (-97.0f32).to_bits(), site_height: 370, feedhorn: 10, calib_bits: 0, htx_bits: 0, vtx_bits: 0, zdr_bits: 0, phi_bits: 0, vcp: 212, processing: 0, zdr_bias: 0, spare: [0; 6] }),
        elv: None,
        rad: None,
        moments: Default::default(),
        pointer_order: vec![VOL],
        physical_order: vec![VOL],
        gaps: vec![vec![]],
    };
    let vc = c01::VolumeCase {
        header: VolHeaderSpec { tape: *b"AR2V0006.", ext: *b"001", date: 20_000, time: 0, icao: *b"KTLX" },
        runs: c.stamps.iter().map(|(d, t)| c01::RunSpec { elevation: 1, count: 1, templates: vec![template((*d).max(1), *t % 86_400_000)] }).collect(),
        metadata: vec![],
        splits: c.splits.clone(),
        msg_header: MsgHeaderSpec { rpg: [0; 12], size: 100, channel: 8, mtype: 31, seq: 0, date: 20_000, time: 1, seg_count: 1, seg_num: 1 },
    };
    let (bytes, radials, _) = c01::build_file(&vc);
    let file = nexrad_data::volume::File::new(bytes);
    let scan = no_panic("File::scan", || file.scan())?.map_err(|e| Fail::new("scan-path:wellformed-volume-rejected", format!("{:?}", e)))?;
    let got: Vec<i64> = scan.sweeps().iter().flat_map(|s| s.radials().iter().map(|r| r.collection_timestamp())).collect();
    ensure_eq!(got.len(), radials.len(), "scan-path:radial-count");
    for (i, (g, spec)) in got.iter().zip(radials.iter()).enumerate() {
        let want = epoch_millis(spec.header.date, spec.header.time as u64);
        ensure_eq!(*g, want, "wrong-instant:scan-path", "radial {} of {} (day count {}, time {} ms; previous radial's day count {})", i, radials.len(), spec.header.date, spec.header.time, if i > 0 { radials[i - 1].header.date as i64 } else { -1 });
    }
    Ok(())
}

/// Message headers reached through `decode_messages` / `Record::messages` as part of a multi-segment run: frames of one
/// fixed-length type whose headers carry segment k of n and their *own* (day count, time) pair. Every returned message
/// must carry its own header's instant (continuation segments are stamped individually on the wire).
#[derive(Clone, Debug, serde::Serialize, serde::Deserialize)]
pub struct SegmentRunCase {
    pub mtype: u8,
    pub stamps: Vec<(u16, u32)>,
    /// segment numbering: 0 = 1..=n of n (a well-formed run), 1 = all "1 of 1", 2 = n..=1 descending
    pub numbering: u8,
    /// frames of another type in front of the run
    pub lead: u8,
}

pub fn check_segment_run(c: &SegmentRunCase) -> Check {
    let n = c.stamps.len();
    let mut stream = Vec::new();
    let mut specs = Vec::new();
    for k in 0..c.lead as usize % 3 {
        let h = wire::MsgHeaderSpec { rpg: [0; 12], size: 1208, channel: 8, mtype: 3, seq: k as u16, date: 20_000, time: 5, seg_count: 1, seg_num: 1 };
        specs.push(h.clone());
    }
    for (i, (d, t)) in c.stamps.iter().enumerate() {
        let (count, num) = match c.numbering % 3 {
            0 => (n as u16, i as u16 + 1),
            1 => (1, 1),
            _ => (n as u16, (n - i) as u16),
        };
        specs.push(wire::MsgHeaderSpec { rpg: [0; 12], size: 1208, channel: 8, mtype: c.mtype, seq: 100 + i as u16, date: (*d).max(1), time: *t % 86_400_000, seg_count: count, seg_num: num });
    }
    for h in &specs {
        let mut frame = h.encode().to_vec();
        frame.resize(2432, 0);
        stream.extend_from_slice(&frame);
    }
    let direct = no_panic("decode_messages", || nexrad_decode::messages::decode_messages(&mut Cursor::new(&stream[..])))?
        .map_err(|e| Fail::new("segment-run:wellformed-stream-rejected", format!("{:?}", e)))?;
    let via_record = no_panic("Record::messages", || nexrad_data::volume::Record::new(stream.clone()).messages())?
        .map_err(|e| Fail::new("segment-run:wellformed-stream-rejected", format!("Record::messages: {:?}", e)))?;
    for (path, msgs) in [("decode_messages", &direct), ("Record::messages", &via_record)] {
        ensure_eq!(msgs.len(), specs.len(), "segment-run:message-count", "{}", path);
        for (i, (m, h)) in msgs.iter().zip(specs.iter()).enumerate() {
            let want = epoch_millis(h.date, h.time as u64);
            let got = m.header().date_time().map(|d| d.timestamp_millis());
            ensure_eq!(got, Some(want), "wrong-instant:segment-run", "{}: message {} of {} (type {}, segment {} of {}, day count {}, time {} ms)", path, i, specs.len(), h.mtype, h.seg_num, h.seg_count, h.date, h.time);
        }
    }
    Ok(())
}

pub fn replay(sub: &str, case: &Value) -> Check {
    if sub == "segment-runs" {
        return check_segment_run(&from_case::<SegmentRunCase>(case)?);
    }
    if sub == "scan-path" {
        return check_scan_path(&from_case::<ScanPathCase>(case)?);
    }
    let c: Case = from_case(case)?;
    match sub {
        "in-domain" | "in-domain-all-days" | "all-minutes" | "regression:in-domain" => {
            ensure!(c.date >= 1 && c.date <= 65_535, "replay-format", "date out of domain");
            check_in_domain(&c)
        }
        "out-of-domain-no-panic" => check_no_panic(&c),
        other => super::unknown_sub(other),
    }
}
