//! C18  Real-time polling delivers chunks in order, without gaps or duplicates.
//!
//! Model-based: a generated *world script* (start position, per-chunk visibility delays, transient
//! faults, uploader-ahead at volume switches, consumer behaviour) drives a loopback S3 simulator;
//! the real `poll_chunks` runs against it on a paused-clock tokio runtime.  The harness owns the two
//! races that matter by gating the first request after delivery k until the consumer has acted.

use crate::gen;
use crate::props::c15::{fresh_site, runtime};
use crate::runner::{from_case, CaseInfo, Check, Ctx, Fail, Report};
use crate::s3sim::{self, list_document, Gate, ListedObject, Request, Response, World};
use crate::wire::*;
use crate::{ensure, ensure_eq};
use chrono::{DateTime, Utc};
use nexrad_data::aws::realtime::{poll_chunks, Chunk, ChunkIdentifier, PollStats};
use nexrad_data::result::aws::AWSError;
use nexrad_data::result::Error as DataError;
use proptest::collection::vec;
use proptest::prelude::*;
use serde::{Deserialize, Serialize};
use serde_json::Value;
use std::collections::HashMap;
use std::sync::mpsc;
use std::sync::{Arc, Mutex};
use std::time::Duration;

pub const NEVER: u8 = 255;

#[derive(Clone, Debug, Serialize, Deserialize)]
pub struct Entry {
    /// number of polling attempts that do not see the chunk yet (0, 1, 2) or NEVER
    pub delay: u8,
    /// transient HTTP 500 responses after the chunk became visible
    pub transient: u8,
    /// for the first chunk of a volume: how many chunks are already listed when the volume appears (1..=3)
    pub ahead: u8,
}

#[derive(Clone, Debug, Serialize, Deserialize, PartialEq)]
pub enum Consumer {
    /// run until the uploader's script ends (next chunk never appears)
    UntilNotFound,
    /// send the stop signal after receiving k deliveries (k = 0: before polling starts)
    StopAfter(usize),
    /// drop the chunk receiver after receiving k deliveries (k = 0: before polling starts)
    DropAfter(usize),
}

#[derive(Clone, Debug, Serialize, Deserialize)]
pub struct Script {
    pub start_volume: usize,
    /// populated directories: one contiguous run of this many volumes ending at start_volume
    pub run_length: usize,
    /// chunks 1..=start_sequence of the start volume are present when polling starts
    pub start_sequence: usize,
    /// one entry per chunk after the start position, in rotation order; past the end = never
    pub entries: Vec<Entry>,
    pub consumer: Consumer,
    pub with_stats: bool,
    /// Last-Modified header on objects: true = a fixed time in the past, false = absent
    pub last_modified_header: bool,
    pub vcp: VcpSpec,
    /// responses delivered with chunked transfer encoding / lower-case header names (bits 0 / 1); listings pretty-printed
    /// (bit 2) and without the optional elements, specials as hexadecimal character references (bit 3)
    #[serde(default)]
    pub delivery: u8,
    /// upload times have whole-second resolution: groups of this many consecutive chunks share one time
    /// (0/1 = all distinct). Directory first-chunk times stay distinct.
    #[serde(default)]
    pub tie_group: u8,
    /// when a chunk in the middle of a volume never appears: 0 = nothing is uploaded after it; k = 1..=3: the uploader goes
    /// on regardless, and the first k chunks of the NEXT volume become visible while the poller is still retrying (the
    /// poller must report the missing chunk, never skip ahead to them)
    #[serde(default)]
    pub hole_continue: u8,
    /// lifetime of the stop handle (the Sender side of the stop channel): 0 = kept alive until polling has returned;
    /// 1 = dropped before polling starts (after sending, for StopAfter(0)); 2 = dropped at the moment the consumer acts
    /// (right after sending the stop, or together with the chunk receiver) or, for a consumer that never acts, before
    /// polling starts. A dropped stop handle is not a stop signal: the expected history is the same in all three modes.
    #[serde(default)]
    pub stop_handle: u8,
    /// the statistics consumer: 0 = keeps its receiver until polling has returned; 1 = reads the first statistics message
    /// (the latest-volume call count, sent before the first chunk is looked up) and then drops its receiver. Only used
    /// together with a stop that is in place before the polling loop starts (StopAfter(0|1)): no statistics are due
    /// between that message and the stop check, so polling must still return successfully.
    #[serde(default)]
    pub stats_consumer: u8,
    /// the value of the message sent on the stop channel (`Receiver<bool>`): polling stops "when a message is received",
    /// whatever it carries; true here = the message is `false`
    #[serde(default)]
    pub stop_message_false: bool,
}

const N_DIRS: usize = 999;

impl Script {
    pub fn first_volume(&self) -> usize {
        // oldest populated directory
        (self.start_volume + N_DIRS - self.run_length) % N_DIRS + 1
    }
    fn order(&self, volume: usize) -> usize {
        (volume + N_DIRS - self.first_volume()) % N_DIRS
    }
    pub fn lin(&self, volume: usize, seq: usize) -> usize {
        self.order(volume) * 55 + (seq - 1)
    }
    pub fn pos(&self, lin: usize) -> (usize, usize) {
        let order = lin / 55;
        ((self.first_volume() - 1 + order) % N_DIRS + 1, lin % 55 + 1)
    }
    pub fn start_lin(&self) -> usize {
        self.lin(self.start_volume, self.start_sequence)
    }
    fn entry(&self, lin: usize) -> Entry {
        let idx = lin as i64 - self.start_lin() as i64 - 1;
        if idx >= 0 && (idx as usize) < self.entries.len() {
            self.entries[idx as usize].clone()
        } else {
            Entry { delay: NEVER, transient: 0, ahead: 1 }
        }
    }
    /// The delivery sequence the uploader script allows when nobody stops the poller.
    pub fn natural(&self) -> Vec<usize> {
        let mut cur = self.start_lin();
        let mut out = vec![cur];
        loop {
            let e = self.entry(cur + 1);
            if e.delay == NEVER || out.len() > 400 {
                return out;
            }
            let (_, seq) = self.pos(cur);
            cur = if seq == 55 { cur + e.ahead.clamp(1, 3) as usize } else { cur + 1 };
            out.push(cur);
        }
    }
}

fn volume_prefix(volume: usize) -> String {
    format!("20240804-{:06}", 100_000 + volume)
}

pub fn chunk_name(volume: usize, seq: usize) -> String {
    format!("{}-{:03}-{}", volume_prefix(volume), seq, match seq { 1 => "S", 55 => "E", _ => "I" })
}

fn upload_time_g(lin: usize, tie_group: u8) -> DateTime<Utc> {
    // a fixed time in the past, non-decreasing with the upload order; with tie_group = g >= 2, g consecutive
    // chunks share one whole second (S3 listings report whole seconds)
    let g = tie_group.max(1) as usize;
    DateTime::<Utc>::from_timestamp(1_000_000_000 + (lin / g) as i64 * 7, 0).expect("valid")
}

/// Object bytes of a chunk: start chunks are real volume files (header + bzip2 record holding the
/// VCP message), other chunks are size || bzip2(unique payload).
pub fn object_bytes(script: &Script, volume: usize, seq: usize) -> Vec<u8> {
    if seq == 1 {
        let header = VolHeaderSpec { tape: *b"AR2V0006.", ext: *b"001", date: 19_900 + (volume % 100) as u32, time: 1000 * seq as u32, icao: *b"KDMX" };
        let msg = MsgSpec {
            header: MsgHeaderSpec { rpg: [0; 12], size: 1208, channel: 8, mtype: 5, seq: volume as u16, date: 19_900, time: 5, seg_count: 1, seg_num: 1 },
            body: BodySpec::Vcp(script.vcp.clone(), vec![0]),
        };
        let mut bytes = header.encode().to_vec();
        bytes.extend_from_slice(&encode_record(&bzip2_compress(&msg.encode(), 9), false));
        bytes
    } else {
        let payload = format!("payload of volume {} chunk {} / {}", volume, seq, volume * 131 + seq * 7);
        encode_record(&bzip2_compress(payload.as_bytes(), 1), false)
    }
}

#[derive(Clone, Debug)]
pub struct Logged {
    pub list: bool,
    pub dir: Option<usize>,
    pub seq: Option<usize>,
    pub max_keys: Option<usize>,
    pub status: u16,
}

pub struct PollWorld {
    pub site: String,
    pub script: Script,
    frontier: usize,
    /// failed GETs for a never-appearing chunk so far
    hole_misses: u8,
    pending_used: u8,
    transient_left: HashMap<usize, u8>,
    list_transient_used: u8,
    /// number of 200 GETs that advanced past everything served before (= deliveries, 1-based)
    advancing_gets: usize,
    max_served: Option<usize>,
    /// hold the first request after the 200 response of delivery number `gate_after` (1-based)
    gate_after: Option<usize>,
    gate_armed: bool,
    pub gate: Arc<Gate>,
    pub log: Vec<Logged>,
    pub flags: Vec<String>,
}

impl PollWorld {
    pub fn new(site: String, script: Script) -> Self {
        let gate_after = match script.consumer {
            Consumer::StopAfter(k) | Consumer::DropAfter(k) if k >= 1 => Some(k),
            _ => None,
        };
        let frontier = script.start_lin();
        PollWorld {
            site,
            script,
            frontier,
            hole_misses: 0,
            pending_used: 0,
            transient_left: HashMap::new(),
            list_transient_used: 0,
            advancing_gets: 0,
            max_served: None,
            gate_after,
            gate_armed: false,
            gate: Gate::new(),
            log: Vec::new(),
            flags: Vec::new(),
        }
    }

    fn in_run(&self, volume: usize) -> bool {
        (1..=N_DIRS).contains(&volume)
    }

    fn visible(&self, volume: usize, seq: usize) -> bool {
        self.in_run(volume) && (self.script.lin(volume, seq) <= self.frontier || self.beyond_hole(volume, seq))
    }

    /// Chunks the uploader made visible although the chunk after the frontier never appeared (see `hole_continue`).
    fn beyond_hole(&self, volume: usize, seq: usize) -> bool {
        if self.script.hole_continue == 0 || self.hole_misses < 2 {
            return false;
        }
        let (fv, fs) = self.script.pos(self.frontier);
        fs != 55 && self.script.entry(self.frontier + 1).delay == NEVER && volume == fv % N_DIRS + 1 && seq <= self.script.hole_continue.min(3) as usize
    }

    fn listed_one(&self, volume: usize, s: usize) -> Option<ListedObject> {
        if !self.visible(volume, s) {
            return None;
        }
        Some(ListedObject {
            key: format!("{}/{}/{}", self.site, volume, chunk_name(volume, s)),
            last_modified: crate::s3sim::spell_instant(upload_time_g(self.script.lin(volume, s), self.script.tie_group), self.script.delivery >> 1, volume as u64),
            size: "4096".to_string(),
        })
    }

    fn error_doc(status: u16) -> Response {
        Response::new(status, b"<?xml version=\"1.0\" encoding=\"UTF-8\"?>\n<Error><Code>InternalError</Code><Message>We encountered an internal error. Please try again.</Message></Error>".to_vec())
    }
}

impl World for PollWorld {
    fn handle(&mut self, req: &Request) -> Response {
        let gate = if self.gate_armed {
            self.gate_armed = false;
            Some(self.gate.clone())
        } else {
            None
        };
        let mut logged = Logged { list: req.is_list(), dir: None, seq: None, max_keys: None, status: 200 };
        let mut resp = if req.is_list() {
            let prefix = req.query_value("prefix").unwrap_or("").to_string();
            let max_keys = req.query_value("max-keys").and_then(|v| v.parse::<usize>().ok());
            logged.max_keys = max_keys;
            // which directory the listing designates (leniently parsed: how the prefix is phrased is not part
            // of the statement); the response itself follows S3's plain string-prefix / byte-order semantics
            let dir = prefix.strip_prefix(&format!("{}/", self.site)).and_then(|rest| {
                let digits: String = rest.chars().take_while(|c| c.is_ascii_digit()).collect();
                digits.parse::<usize>().ok()
            });
            logged.dir = dir;
            if let Some(d) = dir {
                if !(1..=N_DIRS).contains(&d) {
                    self.flags.push(format!("listing outside directories 1..=999: prefix {:?}", prefix));
                }
            }
            let mut status = 200;
            if let Some(d) = dir.filter(|d| (1..=N_DIRS).contains(d)) {
                // a polling-phase listing (not a max-keys=1 discovery probe) of the volume that is due next
                if max_keys != Some(1) {
                    let (fv, fs) = self.script.pos(self.frontier);
                    let next_volume = fv % N_DIRS + 1;
                    if fs == 55 && d == next_volume && !self.visible(d, 1) {
                        let e = self.script.entry(self.frontier + 1);
                        if e.delay == NEVER {
                            // stays empty
                        } else if self.pending_used < e.delay {
                            self.pending_used += 1;
                        } else if self.list_transient_used < e.transient {
                            self.list_transient_used += 1;
                            status = 500;
                        } else {
                            self.frontier += e.ahead.clamp(1, 3) as usize;
                            self.pending_used = 0;
                            self.list_transient_used = 0;
                            if e.ahead > 1 {
                                let t = self.script.entry(self.frontier).transient;
                                self.transient_left.insert(self.frontier, t);
                            }
                        }
                    }
                }
            }
            if status != 200 {
                logged.status = status;
                Self::error_doc(status)
            } else {
                // only volumes whose "SITE/<v>/" key prefix is compatible with the requested prefix are expanded
                let last_order = self.frontier / 55 + 1;
                let mut objects: Vec<ListedObject> = (0..=last_order)
                    .map(|order| (self.script.first_volume() - 1 + order) % N_DIRS + 1)
                    .filter(|v| {
                        let dir = format!("{}/{}/", self.site, v);
                        dir.starts_with(&prefix) || prefix.starts_with(&dir)
                    })
                    .flat_map(|v| (1..=55usize).map(move |sq| (v, sq)))
                    .flat_map(|(v, sq)| self.listed_one(v, sq))
                    .filter(|o| o.key.starts_with(&prefix))
                    .collect();
                objects.sort_by(|a, b| a.key.as_bytes().cmp(b.key.as_bytes()));
                let mut objects = crate::s3sim::page_after(objects, req);
                let total = objects.len();
                objects.truncate(max_keys.unwrap_or(1000).min(1000));
                Response::xml(crate::s3sim::list_document_styled(req.bucket(), &prefix, &objects, objects.len() < total, self.script.delivery & 4 != 0, self.script.delivery & 8 == 0, max_keys, if self.script.delivery & 8 != 0 { 2 } else { 0 }))
            }
        } else {
            // GET SITE/<dir>/<name>
            let key = req.key().to_string();
            let parts: Vec<&str> = key.split('/').collect();
            let parsed = if parts.len() == 3 && parts[0] == self.site {
                parts[1].parse::<usize>().ok().and_then(|d| {
                    let name = parts[2];
                    (1..=55usize).find(|s| chunk_name(d, *s) == name).map(|s| (d, s))
                })
            } else {
                None
            };
            match parsed {
                Some((d, s)) if (1..=N_DIRS).contains(&d) => {
                    logged.dir = Some(d);
                    logged.seq = Some(s);
                    let lin = self.script.lin(d, s);
                    let mut status = 200u16;
                    if lin == self.frontier + 1 {
                        let e = self.script.entry(lin);
                        if e.delay == NEVER {
                            self.hole_misses = self.hole_misses.saturating_add(1);
                            status = 404;
                        } else if self.pending_used < e.delay {
                            self.pending_used += 1;
                            status = 404;
                        } else {
                            self.frontier = lin;
                            self.pending_used = 0;
                            self.transient_left.insert(lin, e.transient);
                        }
                    } else if lin > self.frontier + 1 {
                        self.flags.push(format!("GET for chunk ({}, {}) beyond the next expected one (frontier {:?})", d, s, self.script.pos(self.frontier)));
                        status = 404;
                    }
                    if status == 200 {
                        let left = self.transient_left.get(&lin).copied().unwrap_or(0);
                        if left > 0 {
                            self.transient_left.insert(lin, left - 1);
                            status = 500;
                        }
                    }
                    logged.status = status;
                    if status == 200 {
                        // a 200 GET that advances past everything served before is a delivery; a refetch of an
                        // older chunk (the start-up fetch of chunk 001-S) is not
                        let advancing = self.max_served.map(|m| lin > m).unwrap_or(true);
                        if advancing {
                            self.max_served = Some(lin);
                            self.advancing_gets += 1;
                            if self.gate_after == Some(self.advancing_gets) {
                                self.gate_armed = true;
                            }
                        }
                        let mut r = Response::new(200, object_bytes(&self.script, d, s));
                        if self.script.last_modified_header {
                            r.headers.push(("Last-Modified".into(), upload_time_g(lin, self.script.tie_group).format("%a, %d %b %Y %H:%M:%S GMT").to_string()));
                        }
                        r
                    } else if status == 404 {
                        Response::new(404, b"<Error><Code>NoSuchKey</Code></Error>".to_vec())
                    } else {
                        Self::error_doc(500)
                    }
                }
                _ => {
                    self.flags.push(format!("GET for an unknown key {:?}", key));
                    logged.status = 404;
                    Response::new(404, Vec::new())
                }
            }
        };
        self.log.push(logged);
        resp.gate = gate;
        resp.chunked = self.script.delivery & 1 != 0;
        resp.lowercase_headers = self.script.delivery & 2 != 0;
        resp
    }
}

#[derive(Debug)]
pub struct Delivery {
    pub volume: usize,
    pub name: String,
    pub site: String,
    pub when: Option<DateTime<Utc>>,
    pub data: Vec<u8>,
}

pub enum Outcome {
    Ok,
    Err(DataError),
}

pub struct History {
    pub site: String,
    pub deliveries: Vec<Delivery>,
    pub outcome: Outcome,
    pub stats: Vec<PollStats>,
    pub log: Vec<Logged>,
    pub flags: Vec<String>,
}

/// Runs the real poll_chunks against the scripted world. None = watchdog expired.
pub fn run_scenario(script: &Script) -> Result<Option<History>, Fail> {
    let server = s3sim::global();
    let site = fresh_site();
    let world = Arc::new(Mutex::new(PollWorld::new(site.clone(), script.clone())));
    let gate = world.lock().unwrap_or_else(|e| e.into_inner()).gate.clone();
    server.register(&site, world.clone());

    let (tx, rx) = mpsc::channel::<(ChunkIdentifier, Chunk<'static>)>();
    let (stats_tx, stats_rx) = mpsc::channel::<PollStats>();
    let (stop_tx, stop_rx) = mpsc::channel::<bool>();
    let (done_tx, done_rx) = mpsc::channel::<Result<Outcome, String>>();

    let consumer = script.consumer.clone();
    let stop_handle = script.stop_handle % 3;
    let stop_value = !script.stop_message_false;
    let mut stop_tx = Some(stop_tx);
    // k = 0: act before polling starts
    let mut rx_opt = Some(rx);
    match consumer {
        Consumer::StopAfter(0) => {
            if let Some(t) = &stop_tx {
                let _ = t.send(stop_value);
            }
            if stop_handle != 0 {
                stop_tx = None; // the signal is already in the channel
            }
        }
        Consumer::DropAfter(0) => {
            rx_opt = None;
            if stop_handle != 0 {
                stop_tx = None;
            }
        }
        Consumer::UntilNotFound if stop_handle != 0 => stop_tx = None,
        Consumer::StopAfter(_) => {}
        _ if stop_handle == 1 => stop_tx = None,
        _ => {}
    }
    let consumer_gate = gate.clone();
    let consumer_thread = std::thread::spawn(move || {
        let mut got: Vec<Delivery> = Vec::new();
        let mut rx = rx_opt;
        loop {
            let item = match &rx {
                Some(r) => r.recv(),
                None => break,
            };
            match item {
                Ok((id, chunk)) => {
                    let data = match &chunk {
                        Chunk::Start(f) => f.data().clone(),
                        Chunk::IntermediateOrEnd(r) => r.data().to_vec(),
                    };
                    got.push(Delivery { volume: id.volume().as_number(), name: id.name().to_string(), site: id.site().to_string(), when: id.date_time(), data });
                    match consumer {
                        Consumer::StopAfter(k) if k >= 1 && got.len() == k => {
                            if let Some(t) = &stop_tx {
                                let _ = t.send(stop_value);
                            }
                            if stop_handle == 2 {
                                stop_tx = None; // sent, then dropped: the signal stays in the channel
                            }
                            consumer_gate.open();
                        }
                        Consumer::DropAfter(k) if k >= 1 && got.len() == k => {
                            rx = None; // drops the receiver
                            if stop_handle == 2 {
                                stop_tx = None; // a consumer that owns both ends goes away entirely
                            }
                            consumer_gate.open();
                        }
                        _ => {}
                    }
                }
                Err(_) => break, // sender gone: polling returned
            }
        }
        // keep stop_tx alive until polling is over (a dropped stop sender is not a stop signal)
        (got, stop_tx)
    });

    let with_stats = script.with_stats;
    let stats_leaves_early = with_stats && script.stats_consumer % 2 == 1 && matches!(script.consumer, Consumer::StopAfter(0) | Consumer::StopAfter(1));
    let (stats_back_tx, stats_back_rx) = mpsc::channel::<(Vec<PollStats>, Option<mpsc::Receiver<PollStats>>)>();
    std::thread::spawn(move || {
        if stats_leaves_early {
            let first: Vec<PollStats> = stats_rx.recv().into_iter().collect();
            drop(stats_rx);
            let _ = stats_back_tx.send((first, None));
        } else {
            let _ = stats_back_tx.send((Vec::new(), Some(stats_rx)));
        }
    });
    let site2 = site.clone();
    let poll_thread = std::thread::Builder::new()
        .stack_size(8 << 20)
        .spawn(move || {
            let rt = runtime();
            let r = crate::runner::guard(|| rt.block_on(poll_chunks(&site2, tx, if with_stats { Some(stats_tx) } else { None }, stop_rx)));
            let _ = done_tx.send(r.map(|x| match x {
                Ok(()) => Outcome::Ok,
                Err(e) => Outcome::Err(e),
            }));
        })
        .map_err(|e| Fail::new("oracle", format!("cannot spawn: {}", e)))?;

    let outcome = match done_rx.recv_timeout(Duration::from_secs(60)) {
        Ok(Ok(o)) => o,
        Ok(Err(p)) => {
            gate.open();
            server.unregister(&site);
            return Err(Fail::new("panic:poll_chunks", format!("poll_chunks panicked: {}", p)));
        }
        Err(_) => {
            gate.open();
            server.unregister(&site);
            return Ok(None);
        }
    };
    let _ = poll_thread.join();
    gate.open();
    let (deliveries, _stop_tx) = consumer_thread.join().map_err(|_| Fail::new("oracle", "consumer thread panicked"))?;
    server.unregister(&site);
    let stats: Vec<PollStats> = match stats_back_rx.recv_timeout(Duration::from_secs(5)) {
        Ok((first, None)) => first,
        Ok((_, Some(rx))) => rx.try_iter().collect(),
        Err(_) => Vec::new(),
    };
    let w = world.lock().unwrap_or_else(|e| e.into_inner());
    Ok(Some(History { site, deliveries, outcome, stats, log: w.log.clone(), flags: w.flags.clone() }))
}

pub fn check_script(script: &Script) -> Check {
    ensure!((1..=N_DIRS).contains(&script.start_volume) && (1..=55).contains(&script.start_sequence) && (1..=N_DIRS).contains(&script.run_length), "replay-format", "bad script");
    let h = match run_scenario(script)? {
        Some(h) => h,
        None => return Err(Fail::new("inconclusive:watchdog", "poll_chunks did not return within 60 s of real time")),
    };
    let natural = script.natural();
    let describe = |o: &Outcome| match o {
        Outcome::Ok => "Ok(())".to_string(),
        Outcome::Err(e) => format!("Err({:?})", e),
    };

    // environment-side flags: skipping ahead, directories outside 1..=999, unknown keys
    if let Some(f) = h.flags.first() {
        let sig = if f.contains("beyond the next expected") { "history:skipped-ahead" } else if f.contains("outside directories") { "history:directory-outside-1..=999" } else { "history:unknown-key-requested" };
        return Err(Fail::new(sig, f.clone()));
    }

    // every delivery is the next one of the natural sequence: in order, no gap, no repeat
    for (i, d) in h.deliveries.iter().enumerate() {
        let want = natural.get(i).map(|l| script.pos(*l));
        let got_seq = (1..=55usize).find(|s| chunk_name(d.volume, *s) == d.name);
        let got = got_seq.map(|s| (d.volume, s));
        if got != want || got.is_none() {
            let prev = if i > 0 { natural.get(i - 1).map(|l| script.pos(*l)) } else { None };
            let sig = match (got, want, prev) {
                (Some(g), _, Some(p)) if g == p => "history:repeated-delivery",
                (Some(g), Some(w), _) if script.lin(g.0, g.1) > script.lin(w.0, w.1) => "history:gap-or-skip",
                (_, _, None) => "history:first-delivery-not-newest-chunk",
                _ => "history:out-of-order-delivery",
            };
            return Err(Fail::new(
                sig,
                format!("delivery {} is volume {} chunk {:?} ({}), expected {:?}; start ({}, {}), consumer {:?}", i + 1, d.volume, got_seq, d.name, want, script.start_volume, script.start_sequence, script.consumer),
            ));
        }
        let (v, s) = want.expect("checked");
        let bytes = object_bytes(script, v, s);
        ensure!(d.data == bytes, "history:payload-differs", "delivery {} ({}, {}): {} bytes delivered, {} bytes uploaded", i + 1, v, s, d.data.len(), bytes.len());
        ensure_eq!(d.site.as_str(), h.site.as_str(), "history:site-label", "delivery {}", i + 1);
        let want_when = if script.last_modified_header { Some(upload_time_g(script.lin(v, s), script.tie_group)) } else { None };
        // the first delivery's identifier comes from the download too, so the same rule applies
        ensure_eq!(d.when, want_when, "history:upload-time-label", "delivery {} ({}, {})", i + 1, v, s);
    }
    let n = h.deliveries.len();

    // outcome and delivery count
    let m = natural.len();
    match &script.consumer {
        Consumer::UntilNotFound => {
            ensure!(matches!(h.outcome, Outcome::Err(DataError::AWS(AWSError::ExpectedChunkNotFound))), "outcome:missing-chunk-not-reported", "script ends after {} deliveries; poll_chunks returned {} with {} deliveries", m, describe(&h.outcome), n);
            ensure_eq!(n, m, "history:delivery-count", "the uploader made {} chunks visible in sequence", m);
        }
        Consumer::StopAfter(k0) => {
            let k = (*k0).max(1); // the first delivery is made before the stop flag is consulted
            if m < k {
                ensure!(matches!(h.outcome, Outcome::Err(DataError::AWS(AWSError::ExpectedChunkNotFound))), "outcome:missing-chunk-not-reported", "returned {}", describe(&h.outcome));
                ensure_eq!(n, m, "history:delivery-count");
            } else {
                match &h.outcome {
                    // k0 <= 1: the stop is in place before the first loop iteration, so exactly one delivery
                    Outcome::Ok if *k0 <= 1 => ensure_eq!(n, 1, "history:deliveries-after-stop", "stop sent after {} deliveries", k0),
                    Outcome::Ok => ensure!(n == k || (n == k + 1 && m > k), "history:deliveries-after-stop", "stop sent after delivery {}: {} deliveries were made ({} available); at most one further chunk may follow", k, n, m),
                    Outcome::Err(DataError::AWS(AWSError::ExpectedChunkNotFound)) if m == k && *k0 >= 2 => ensure_eq!(n, k, "history:delivery-count"),
                    other => return Err(Fail::new("outcome:stop-not-honoured", format!("stop sent after delivery {} of {} available: poll_chunks returned {}", k, m, describe(other)))),
                }
            }
        }
        Consumer::DropAfter(k) => {
            if *k >= 1 && m <= *k {
                // the consumer never goes away before the uploader's script ends (or goes away after the last chunk)
                ensure!(matches!(h.outcome, Outcome::Err(DataError::AWS(AWSError::ExpectedChunkNotFound))), "outcome:missing-chunk-not-reported", "returned {}", describe(&h.outcome));
                ensure_eq!(n, m, "history:delivery-count");
            } else {
                ensure!(matches!(h.outcome, Outcome::Err(DataError::AWS(AWSError::PollingAsyncError))), "outcome:consumer-gone-not-reported", "receiver dropped after {} deliveries: poll_chunks returned {}", k, describe(&h.outcome));
                ensure_eq!(n, *k, "history:delivery-count");
            }
        }
    }

    // request-log invariants: bounded retries
    let mut gets_per_key: HashMap<(usize, usize), usize> = HashMap::new();
    let mut lists_per_dir: HashMap<usize, usize> = HashMap::new();
    let mut discovery = 0usize;
    for l in &h.log {
        if l.list {
            if l.max_keys == Some(1) {
                discovery += 1;
            } else if let Some(d) = l.dir {
                *lists_per_dir.entry(d).or_insert(0) += 1;
            }
        } else if let (Some(d), Some(s)) = (l.dir, l.seq) {
            *gets_per_key.entry((d, s)).or_insert(0) += 1;
        }
    }
    for ((d, s), c) in &gets_per_key {
        // chunk 001-S of the start volume may be fetched once more at start-up
        // generous bounds (the statement does not fix the retry budget); unbounded retrying is caught by the watchdog
        let allowed = if *d == script.start_volume && *s == 1 { 18 } else { 16 };
        ensure!(*c <= allowed, "history:retry-budget-exceeded", "{} GETs for chunk ({}, {})", c, d, s);
    }
    for (d, c) in &lists_per_dir {
        ensure!(*c <= 32, "history:retry-budget-exceeded", "{} listings of directory {}", c, d);
    }
    if script.with_stats {
        if let Some(PollStats::LatestVolumeCalls(c)) = h.stats.first() {
            ensure_eq!(*c, discovery, "stats:latest-volume-calls", "the simulator saw {} discovery probes", discovery);
        }
    }
    Ok(())
}

fn entry_strategy() -> impl Strategy<Value = Entry> {
    (
        prop_oneof![6 => Just(0u8), 2 => Just(1u8), 2 => Just(2u8)],
        // at most 3 failed attempts per chunk in total: the statement names delays of up to 2 attempts plus
        // transient faults, and does not fix the size of the retry budget
        prop_oneof![6 => Just(0u8), 2 => Just(1u8)],
        prop_oneof![3 => Just(1u8), 1 => Just(2u8), 1 => Just(3u8)],
    )
        .prop_map(|(delay, transient, ahead)| Entry { delay, transient, ahead })
}

pub fn script_strategy() -> impl Strategy<Value = Script> {
    let volume = prop_oneof![2 => Just(999usize), 2 => Just(998usize), 1 => Just(997usize), 2 => Just(1usize), 1 => Just(2usize), 1 => Just(500usize), 3 => 1usize..=999];
    let seq = prop_oneof![4 => 50usize..=55, 2 => Just(55usize), 1 => Just(1usize), 3 => 1usize..=55];
    // mostly a short populated run; sometimes a widely populated bucket (a prefix such as SITE/1 then also
    // matches SITE/10.., SITE/100..); at least three directories stay empty ahead of the uploader
    let run = prop_oneof![6 => 3usize..=12, 1 => Just(1usize), 1 => Just(2usize), 2 => 100usize..=990];
    let entries = prop_oneof![1 => Just(0usize), 4 => 1usize..=8, 4 => 9usize..=30, 1 => 31usize..=70].prop_flat_map(|n| vec(entry_strategy(), n));
    let never_at = prop_oneof![3 => Just(None), 1 => any::<u16>().prop_map(Some)];
    let consumer = prop_oneof![
        4 => Just(Consumer::UntilNotFound),
        3 => (0usize..=12).prop_map(Consumer::StopAfter),
        2 => (0usize..=12).prop_map(Consumer::DropAfter),
    ];
    (volume, run, seq, entries, never_at, consumer, (any::<bool>(), prop_oneof![2 => Just(0u8), 2 => 1u8..16], prop_oneof![3 => Just(0u8), 1 => Just(2u8), 1 => Just(3u8), 1 => Just(5u8)]), prop_oneof![3 => Just(true), 1 => Just(false)], gen::vcp(prop_oneof![Just(0usize), 1usize..=20].boxed()).prop_flat_map(|v| {
        let n = v.cuts.len();
        (Just(v), vec(gen::realistic_cut(), n))
    }))
        .prop_map(|(start_volume, run_length, start_sequence, mut entries, never_at, consumer, (with_stats, delivery, tie_group), last_modified_header, (mut vcp, cuts))| {
            let hole_continue = (delivery / 4 + tie_group) % 4; // derived from other draws: 0..=3
            let stop_handle = ((delivery as usize + start_sequence + run_length) % 3) as u8; // derived likewise: 0..=2
            let stats_consumer = ((tie_group as usize + start_sequence + entries.len()) % 2) as u8;
            let stop_message_false = (run_length + entries.len() + delivery as usize) % 3 == 0;
            vcp.cuts = cuts;
            if let (Some(sel), false) = (never_at, entries.is_empty()) {
                let i = (sel as usize * entries.len()) >> 16;
                entries[i].delay = NEVER;
            }
            Script { start_volume, run_length, start_sequence, entries, consumer, with_stats, last_modified_header, vcp, delivery, tie_group, hole_continue, stop_handle, stats_consumer, stop_message_false }
        })
}

pub fn classify(s: &Script) -> CaseInfo {
    let natural = s.natural();
    let switches = natural.windows(2).filter(|w| s.pos(w[0]).0 != s.pos(w[1]).0).count();
    let delayed = s.entries.iter().take(natural.len()).any(|e| (e.delay > 0 && e.delay != NEVER) || e.transient > 0);
    let wrap = natural.windows(2).any(|w| s.pos(w[0]).0 == 999 && s.pos(w[1]).0 == 1);
    CaseInfo::new((switches >= 1 || delayed) && natural.len() >= 3)
        .class(switches >= 1, "volume-switch")
        .class(wrap, "wrap-999-to-1")
        .class(matches!(s.start_volume, 997 | 998 | 999 | 1), "start-volume-near-wrap")
        .class(s.start_sequence == 55, "start-at-end-chunk")
        .class(matches!(s.consumer, Consumer::StopAfter(0)), "stop-at-0")
        .class(matches!(s.consumer, Consumer::StopAfter(_)), "stop")
        .class(matches!(s.consumer, Consumer::DropAfter(_)), "consumer-dropped")
        .class(matches!(s.consumer, Consumer::UntilNotFound), "until-not-found")
        .class(delayed, "delayed-or-faulted-chunk")
        .class(natural.windows(2).any(|w| s.pos(w[0]).1 == 55 && s.pos(w[1]).1 > 1), "uploader-ahead-at-switch")
        .class(!s.last_modified_header, "no-last-modified-header")
        .class(s.run_length >= 100, "widely-populated-bucket")
        .class(s.tie_group >= 2, "tied-upload-times")
        .class(s.stop_handle % 3 != 0, "stop-handle-dropped-early")
        .class(s.stop_message_false && matches!(s.consumer, Consumer::StopAfter(_)), "stop-message-carries-false")
        .class(s.with_stats && s.stats_consumer % 2 == 1 && matches!(s.consumer, Consumer::StopAfter(0) | Consumer::StopAfter(1)), "stats-consumer-leaves-before-stop")
        .class(s.delivery & 4 != 0, "pretty-printed-listings")
        .class(s.hole_continue > 0 && s.entries.iter().take(natural.len()).any(|e| e.delay == NEVER), "uploader-continues-past-a-missing-chunk")
}

pub fn run(ctx: &Ctx, rep: &mut Report) {
    rep.journal_cases = true;
    let _ = s3sim::global();
    rep.trust("loopback S3 simulator scripted per chunk (visibility by polling-attempt count, transient 500s, uploader-ahead at volume switches) and its request log; tokio's paused clock for the retry back-offs");
    rep.trust("reference: the delivery sequence the script allows (successor walk with the listed-last rule at volume switches)");
    rep.assume("interleavings are those expressible as request-count-driven visibility plus the two gated consumer races (stop / receiver dropped after delivery k); poll_chunks is single-task sequential code, so no other preemption point changes the history");
    rep.assume("populated directories form a contiguous run of 1..12 (sometimes 100..990) volumes with increasing upload times; directories beyond the newest are empty until the uploader reaches them");
    rep.assume("liveness is bounded, not proved: a scenario that does not return within 60 s of real time is inconclusive (exit 2), never a violation");

    rep.prop(
        "scenarios",
        "proptest (model-based, shrinks as one value): world script = start volume (999/998/997/1/2/500/random) x populated run 1..12 or 100..990 x start sequence (50..55 boosted) x per-chunk entries {delay 0/1/2 attempts or never, 0..2 transient 500s, 1..3 chunks already listed at a volume switch} x consumer {run to the missing chunk, stop after k in 0..12, drop receiver after k} x stats channel x Last-Modified header present/absent; oracle = history invariants against the script; non-trivial = >= 3 deliveries available and (>= 1 volume switch or >= 1 delayed/faulted chunk)",
        ctx.tier.pick(1_000, 30_000),
        script_strategy,
        classify,
        check_script,
    );
    rep.require_class("scenarios", "volume-switch", 40);
    rep.require_class("scenarios", "wrap-999-to-1", 5);
    rep.require_class("scenarios", "stop", 30);
    rep.require_class("scenarios", "consumer-dropped", 20);
    rep.require_class("scenarios", "stop-handle-dropped-early", 50);
    rep.require_class("scenarios", "stats-consumer-leaves-before-stop", 5);
    rep.require_class("scenarios", "stop-message-carries-false", 20);
    rep.require_class("scenarios", "delayed-or-faulted-chunk", 50);
    rep.require_class("scenarios", "widely-populated-bucket", 20);
    rep.require_class("scenarios", "tied-upload-times", 40);

    let slow: Vec<_> = rep.violations.iter().filter(|v| v.sig == "inconclusive:watchdog").map(|v| v.detail.clone()).collect();
    if !slow.is_empty() {
        rep.violations.retain(|v| v.sig != "inconclusive:watchdog");
        for s in slow {
            rep.inconclusive.push(s);
        }
    }
}

pub fn replay(sub: &str, case: &Value) -> Check {
    let _ = s3sim::global();
    match sub {
        "scenarios" => match check_script(&from_case::<Script>(case)?) {
            Err(f) if f.sig == "inconclusive:watchdog" => Err(Fail::new("replay-format", f.detail)),
            other => other,
        },
        other => super::unknown_sub(other),
    }
}
