//! C07  Radial model mapping and gate-value conversion are exact.

use crate::gen::{self, DrdOpts};
use crate::model::epoch_millis;
use crate::runner::{from_case, no_panic, CaseInfo, Check, Ctx, Fail, Report};
use crate::wire::*;
use crate::{ensure, ensure_eq};
use nexrad_decode::messages::digital_radar_data as drd;
use nexrad_model::data::{MomentData, MomentValue, Radial};
use proptest::prelude::*;
use serde::{Deserialize, Serialize};
use serde_json::Value;

/// Builds the decode-level message directly from public fields (no decoder involved).
pub fn build_message(s: &DrdSpec) -> drd::Message {
    let id = |t: u8, name: &[u8; 3]| drd::DataBlockId { data_block_type: t, data_name: *name };
    let moment = |i: usize| -> Option<drd::GenericDataBlock> {
        s.moments[i].as_ref().map(|m| drd::GenericDataBlock {
            header: drd::GenericDataBlockHeader {
                data_block_id: id(m.id_type, BLOCK_NAMES[3 + i]),
                reserved: m.reserved,
                number_of_data_moment_gates: m.gates,
                data_moment_range: m.range,
                data_moment_range_sample_interval: m.interval,
                tover: m.tover,
                snr_threshold: m.snr,
                control_flags: m.ctrl,
                data_word_size: m.word_size,
                scale: f32::from_bits(m.scale_bits),
                offset: f32::from_bits(m.offset_bits),
            },
            encoded_data: m.data.clone(),
        })
    };
    let h = &s.header;
    drd::Message {
        header: drd::Header {
            radar_identifier: h.radar_id,
            time: h.time,
            date: h.date,
            azimuth_number: h.az_num,
            azimuth_angle: f32::from_bits(h.az_angle_bits),
            compression_indicator: h.compression,
            spare: h.spare,
            radial_length: h.radial_length,
            azimuth_resolution_spacing: h.az_spacing,
            radial_status: h.status,
            elevation_number: h.elev_num,
            cut_sector_number: h.cut_sector,
            elevation_angle: f32::from_bits(h.elev_angle_bits),
            radial_spot_blanking_status: h.spot,
            azimuth_indexing_mode: h.az_index,
            data_block_count: s.pointer_order.len() as u16,
        },
        volume_data_block: s.vol.as_ref().map(|v| drd::VolumeDataBlock {
            data_block_id: id(v.id_type, b"VOL"),
            lrtup: v.lrtup,
            major_version_number: v.major,
            minor_version_number: v.minor,
            latitude: f32::from_bits(v.lat_bits),
            longitude: f32::from_bits(v.lon_bits),
            site_height: v.site_height,
            feedhorn_height: v.feedhorn,
            calibration_constant: f32::from_bits(v.calib_bits),
            horizontal_shv_tx_power: f32::from_bits(v.htx_bits),
            vertical_shv_tx_power: f32::from_bits(v.vtx_bits),
            system_differential_reflectivity: f32::from_bits(v.zdr_bits),
            initial_system_differential_phase: f32::from_bits(v.phi_bits),
            volume_coverage_pattern_number: v.vcp,
            processing_status: v.processing,
            zdr_bias_estimate_weighted_mean: v.zdr_bias,
            spare: v.spare,
        }),
        elevation_data_block: s.elv.as_ref().map(|e| drd::ElevationDataBlock {
            data_block_id: id(e.id_type, b"ELV"),
            lrtup: e.lrtup,
            atmos: e.atmos,
            calibration_constant: f32::from_bits(e.calib_bits),
        }),
        radial_data_block: s.rad.as_ref().map(|r| drd::RadialDataBlock {
            data_block_id: id(r.id_type, b"RAD"),
            lrtup: r.lrtup,
            unambiguous_range: r.unamb_range,
            horizontal_channel_noise_level: f32::from_bits(r.hnoise_bits),
            vertical_channel_noise_level: f32::from_bits(r.vnoise_bits),
            nyquist_velocity: r.nyquist,
            radial_flags: r.flags,
            horizontal_channel_calibration_constant: f32::from_bits(r.hcal_bits),
            vertical_channel_calibration_constant: f32::from_bits(r.vcal_bits),
        }),
        reflectivity_data_block: moment(0),
        velocity_data_block: moment(1),
        spectrum_width_data_block: moment(2),
        differential_reflectivity_data_block: moment(3),
        differential_phase_data_block: moment(4),
        correlation_coefficient_data_block: moment(5),
        specific_diff_phase_data_block: moment(6),
    }
}

#[derive(Debug, Clone, Copy, PartialEq)]
pub enum Expect {
    Below,
    Folded,
    Value(f64),
    /// scale 0 and raw in {0,1}: sentinel or raw value, the statement admits either
    Ambiguous,
}

pub fn raw_values(m: &MomentSpec) -> Vec<u32> {
    if m.word_size == 16 {
        m.data.chunks_exact(2).map(|p| ((p[0] as u32) << 8) | p[1] as u32).collect()
    } else {
        m.data.iter().map(|b| *b as u32).collect()
    }
}

pub fn expected_value(raw: u32, scale: f32, offset: f32) -> Expect {
    if scale == 0.0 {
        if raw <= 1 {
            return Expect::Ambiguous;
        }
        return Expect::Value(raw as f64);
    }
    match raw {
        0 => Expect::Below,
        1 => Expect::Folded,
        _ => Expect::Value((raw as f64 - offset as f64) / scale as f64),
    }
}

fn close(got: f32, want: f64) -> bool {
    let w = want as f32;
    if got == w || (got.is_nan() && w.is_nan()) {
        return true;
    }
    if got.is_infinite() || w.is_infinite() {
        // f32 overflow boundary: admit when the f64 value is within rounding of f32::MAX
        return want.abs() >= f32::MAX as f64 * 0.999_999 && (got.is_infinite() || got.abs() >= f32::MAX * 0.999_999) && (got.is_sign_positive() == (want > 0.0));
    }
    let scale = got.abs().max(w.abs());
    (got - w).abs() <= 1e-6 * scale || scale < 1e-37
}

fn model_matches(e: Expect, v: &MomentValue) -> bool {
    match (e, v) {
        (Expect::Below, MomentValue::BelowThreshold) => true,
        (Expect::Folded, MomentValue::RangeFolded) => true,
        (Expect::Value(w), MomentValue::Value(g)) => close(*g, w),
        (Expect::Ambiguous, _) => true,
        _ => false,
    }
}

fn same_value(a: &drd::ScaledMomentValue, b: &MomentValue) -> bool {
    match (a, b) {
        (drd::ScaledMomentValue::BelowThreshold, MomentValue::BelowThreshold) => true,
        (drd::ScaledMomentValue::RangeFolded, MomentValue::RangeFolded) => true,
        (drd::ScaledMomentValue::Value(x), MomentValue::Value(y)) => x.to_bits() == y.to_bits() || (x.is_nan() && y.is_nan()) || x == y,
        _ => false,
    }
}

/// One moment: decode level (`decoded_values`) and model level (`values`) against the closed form.
pub fn check_moment_values(label: &str, m: &MomentSpec, block: &drd::GenericDataBlock, model: &MomentData) -> Check {
    let raws = raw_values(m);
    let scale = f32::from_bits(m.scale_bits);
    let offset = f32::from_bits(m.offset_bits);
    let ws = m.word_size;
    let dec = no_panic("GenericDataBlock::decoded_values", || block.decoded_values())?;
    let mv = no_panic("MomentData::values", || model.values())?;
    ensure_eq!(dec.len(), m.gates as usize, format!("values:decode-level-count-{}bit", ws), "{}: {} gates of {} bits", label, m.gates, ws);
    ensure_eq!(mv.len(), m.gates as usize, format!("values:model-level-count-{}bit", ws), "{}: {} gates of {} bits", label, m.gates, ws);
    for (i, raw) in raws.iter().enumerate() {
        let e = expected_value(*raw, scale, offset);
        ensure!(
            model_matches(e, &mv[i]),
            format!("values:model-level-value-{}bit", ws),
            "{} gate {}: raw {} scale {} offset {} -> {:?}, expected {:?}",
            label, i, raw, scale, offset, mv[i], e
        );
        ensure!(
            same_value(&dec[i], &mv[i]),
            format!("values:levels-disagree-{}bit", ws),
            "{} gate {}: raw {}: decode level {:?} vs model level {:?}",
            label, i, raw, dec[i], mv[i]
        );
    }
    // sibling entry points: the block's own borrowing / consuming conversions give the same moment data as
    // the one found in the radial
    let direct = no_panic("GenericDataBlock::moment_data", || block.moment_data())?;
    let consumed = no_panic("GenericDataBlock::into_moment_data", || block.clone().into_moment_data())?;
    for (name, md) in [("moment_data", &direct), ("into_moment_data", &consumed)] {
        let v = no_panic("MomentData::values", || md.values())?;
        ensure!(
            v.len() == mv.len() && v.iter().zip(mv.iter()).all(|(a, b)| same_model_value(a, b)),
            format!("values:block-{}-differs-from-radial-{}bit", name, ws),
            "{}: GenericDataBlock::{}() yields different values than the radial's moment ({} vs {} gates)",
            label, name, v.len(), mv.len()
        );
    }
    Ok(())
}

fn same_model_value(a: &MomentValue, b: &MomentValue) -> bool {
    match (a, b) {
        (MomentValue::Value(x), MomentValue::Value(y)) => x.to_bits() == y.to_bits() || (x.is_nan() && y.is_nan()) || x == y,
        (MomentValue::BelowThreshold, MomentValue::BelowThreshold) | (MomentValue::RangeFolded, MomentValue::RangeFolded) => true,
        _ => false,
    }
}

const STATUS_NAMES: [&str; 6] = [
    "ElevationStart",
    "IntermediateRadialData",
    "ElevationEnd",
    "VolumeScanStart",
    "VolumeScanEnd",
    "ElevationStartVCPFinal",
];

/// Checks a model radial against the spec it was made from (shared with C01).
pub fn check_radial_against_spec(s: &DrdSpec, msg: &drd::Message, r: &Radial) -> Check {
    let h = &s.header;
    ensure_eq!(r.azimuth_number(), h.az_num, "radial:azimuth_number");
    ensure_eq!(r.azimuth_angle_degrees().to_bits(), h.az_angle_bits, "radial:azimuth_angle");
    ensure_eq!(r.elevation_number(), h.elev_num, "radial:elevation_number");
    ensure_eq!(r.elevation_angle_degrees().to_bits(), h.elev_angle_bits, "radial:elevation_angle");
    ensure_eq!(r.azimuth_spacing_degrees(), 0.5 * h.az_spacing as f32, "radial:azimuth_spacing", "spacing code {}", h.az_spacing);
    // the collection time is the header's date-time in epoch milliseconds: compared with the header
    // accessor for every header, and with the closed form on the documented domain (day count >= 1)
    let header_ms = msg.header.date_time().map(|d| d.timestamp_millis());
    ensure_eq!(Some(r.collection_timestamp()), header_ms, "radial:collection_timestamp-differs-from-header-date_time", "date {} time {}", h.date, h.time);
    if h.date >= 1 && h.time < 86_400_000 {
        ensure_eq!(r.collection_timestamp(), epoch_millis(h.date, h.time as u64), "radial:collection_timestamp", "date {} time {}", h.date, h.time);
    }
    // sibling accessors: the typed (uom) views of the same angles.  uom stores an Angle in radians (f32), so the
    // degree -> radian -> degree round trip may lose an ulp or two: compared with a relative tolerance of 1e-5
    {
        use uom::si::angle::degree;
        let near = |typed: f32, plain: f32| typed == plain || (typed - plain).abs() <= 1e-5 * plain.abs().max(f32::MIN_POSITIVE) || (typed.is_nan() && plain.is_nan()) || (!typed.is_finite() && (plain.abs() > 1e37 || !plain.is_finite())) || plain.abs() < 1e-30;
        ensure!(near(r.azimuth().get::<degree>(), r.azimuth_angle_degrees()), "radial:azimuth()-differs-from-degrees", "{} vs {}", r.azimuth().get::<degree>(), r.azimuth_angle_degrees());
        ensure!(near(r.elevation_angle().get::<degree>(), r.elevation_angle_degrees()), "radial:elevation_angle()-differs-from-degrees", "{} vs {}", r.elevation_angle().get::<degree>(), r.elevation_angle_degrees());
        ensure!(near(r.azimuth_spacing().get::<degree>(), r.azimuth_spacing_degrees()), "radial:azimuth_spacing()-differs-from-degrees", "{} vs {}", r.azimuth_spacing().get::<degree>(), r.azimuth_spacing_degrees());
    }
    // sibling accessor: the chrono view of the same instant
    ensure_eq!(r.collection_time().map(|d| d.timestamp_millis()), chrono::DateTime::from_timestamp_millis(r.collection_timestamp()).map(|d| d.timestamp_millis()), "radial:collection_time-differs-from-collection_timestamp");
    // one-to-one status: documented codes 0..=5 map to the six names; other codes map as the header accessor does
    let model_status = format!("{:?}", r.radial_status());
    if (h.status as usize) < 6 {
        ensure_eq!(model_status.as_str(), STATUS_NAMES[h.status as usize], "radial:status", "code {}", h.status);
    }
    let decode_status = format!("{:?}", msg.header.radial_status());
    ensure_eq!(model_status, decode_status, "radial:status-differs-from-header-accessor", "code {}", h.status);

    let model_moments: [Option<&MomentData>; 7] = [
        r.reflectivity(),
        r.velocity(),
        r.spectrum_width(),
        r.differential_reflectivity(),
        r.differential_phase(),
        r.correlation_coefficient(),
        r.specific_differential_phase(),
    ];
    let blocks: [&Option<drd::GenericDataBlock>; 7] = [
        &msg.reflectivity_data_block,
        &msg.velocity_data_block,
        &msg.spectrum_width_data_block,
        &msg.differential_reflectivity_data_block,
        &msg.differential_phase_data_block,
        &msg.correlation_coefficient_data_block,
        &msg.specific_diff_phase_data_block,
    ];
    for i in 0..7 {
        let label = MOMENT_LABELS[i];
        match (&s.moments[i], model_moments[i], blocks[i]) {
            (Some(ms), Some(md), Some(b)) => check_moment_values(label, ms, b, md)?,
            (None, None, None) => {}
            (Some(_), None, _) => return Err(Fail::new(format!("radial:moment-lost[{}]", label), format!("{} present in the message but absent in the radial", label))),
            (None, Some(_), _) => return Err(Fail::new(format!("radial:moment-invented[{}]", label), format!("{} absent in the message but present in the radial", label))),
            _ => return Err(Fail::new("oracle", "message and spec disagree on block presence")),
        }
    }
    Ok(())
}

#[derive(Clone, Debug, Serialize, Deserialize)]
pub struct RadialCase {
    pub drd: DrdSpec,
}

pub fn check_radial(c: &RadialCase) -> Check {
    let msg = build_message(&c.drd);
    if no_panic("Header::date_time", || msg.header.date_time())?.is_none() {
        // the header itself has no date-time (possible only outside the documented domain): the conversion may refuse
        let r = no_panic("Message::radial", || msg.radial())?;
        if r.is_err() {
            return Ok(());
        }
    }
    let borrowed = no_panic("Message::radial", || msg.radial())?.map_err(|e| Fail::new("radial:conversion-error", format!("radial(): {:?}", e)))?;
    let consumed = no_panic("Message::into_radial", || msg.clone().into_radial())?
        .map_err(|e| Fail::new("radial:conversion-error", format!("into_radial(): {:?}", e)))?;
    ensure!(borrowed == consumed, "radial:borrowing-vs-consuming-differ", "radial() and into_radial() produce different radials");
    check_radial_against_spec(&c.drd, &msg, &borrowed)?;
    // history: equality must not depend on what has been read from a radial.  The gate values of `borrowed` have now
    // been read, those of a fresh consuming conversion (and of `consumed`) have not
    let fresh = no_panic("Message::into_radial", || msg.clone().into_radial())?.map_err(|e| Fail::new("radial:conversion-error", format!("into_radial(): {:?}", e)))?;
    ensure!(borrowed == fresh && fresh == borrowed, "radial:equality-depends-on-read-history", "a radial whose gate values have been read no longer equals a fresh conversion of the same message");
    ensure!(borrowed == consumed, "radial:equality-depends-on-read-history", "radial() (values read) and into_radial() (values not read) of the same message compare unequal");
    check_radial_against_spec(&c.drd, &msg, &consumed)?;
    ensure!(borrowed == consumed, "radial:borrowing-vs-consuming-differ", "radial() and into_radial() produce different radials");
    Ok(())
}

#[derive(Clone, Debug, Serialize, Deserialize)]
pub struct TableCase {
    pub word_size: u8,
    pub scale_bits: u32,
    pub offset_bits: u32,
    /// how the raw values are laid out into gate vectors (length-dependent code paths): 8-bit tables of
    /// 256 / 257 / 300 / 512 / 513 / 1024 / 1840 / 4099 gates (raw value = gate index mod 256, rotated),
    /// 16-bit tables split into blocks at different points
    #[serde(default)]
    pub layout: u8,
}

/// All raw values of one word size under one (scale, offset) pair.
pub fn check_table(c: &TableCase) -> Check {
    let halves: Vec<std::ops::Range<u32>> = if c.word_size == 16 {
        match c.layout % 4 {
            0 => vec![0..32_768, 32_768..65_536],
            1 => vec![0..65_535, 65_535..65_536],
            2 => vec![0..1, 1..65_536],
            _ => vec![0..257, 257..21_845, 21_845..43_690, 43_690..65_536],
        }
    } else {
        let n = [256u32, 257, 300, 512, 513, 1024, 1840, 4099][(c.layout % 8) as usize];
        // the same 256 raw values, cycled to n gates and rotated by the layout number
        vec![c.layout as u32..c.layout as u32 + n]
    };
    for range in halves {
        let gates = (range.end - range.start) as u16;
        let data: Vec<u8> = if c.word_size == 16 {
            range.clone().flat_map(|r| [(r >> 8) as u8, r as u8]).collect()
        } else {
            range.clone().map(|r| r as u8).collect()
        };
        let ms = MomentSpec {
            id_type: b'D',
            reserved: 0,
            gates,
            range: 2125,
            interval: 250,
            tover: 50,
            snr: 16,
            ctrl: 0,
            word_size: c.word_size,
            scale_bits: c.scale_bits,
            offset_bits: c.offset_bits,
            data,
        };
        let mut spec = base_spec();
        spec.moments[4] = Some(ms.clone());
        spec.pointer_order = vec![MOMENT0 + 4];
        spec.physical_order = vec![MOMENT0 + 4];
        spec.gaps = vec![vec![]];
        let msg = build_message(&spec);
        let block = msg.differential_phase_data_block.as_ref().expect("block present");
        let radial = no_panic("Message::radial", || msg.radial())?.map_err(|e| Fail::new("radial:conversion-error", format!("{:?}", e)))?;
        let md = radial.differential_phase().ok_or_else(|| Fail::new("radial:moment-lost[PHI]", "PHI absent in the radial"))?;
        check_moment_values("PHI", &ms, block, md)?;
    }
    Ok(())
}

fn base_spec() -> DrdSpec {
    DrdSpec {
        header: DrdHeaderSpec {
            radar_id: *b"KTLX",
            time: 43_200_000,
            date: 20_000,
            az_num: 1,
            az_angle_bits: 1.5f32.to_bits(),
            compression: 0,
            spare: 0,
            radial_length: 0,
            az_spacing: 1,
            status: 1,
            elev_num: 1,
            cut_sector: 0,
            elev_angle_bits: 0.5f32.to_bits(),
            spot: 0,
            az_index: 0,
        },
        vol: None,
        elv: None,
        rad: None,
        moments: Default::default(),
        pointer_order: vec![],
        physical_order: vec![],
        gaps: vec![],
    }
}

fn finite_scale_offset() -> impl Strategy<Value = (u32, u32)> {
    let f = || {
        prop_oneof![
            4 => (-400i32..=400).prop_map(|v| (v as f32 * 0.5).to_bits()),
            3 => any::<u32>().prop_map(gen::finite_bits),
            1 => Just(0.0f32.to_bits()),
            1 => Just((-0.0f32).to_bits()),
            1 => prop_oneof![Just(1e-30f32), Just(1e30f32), Just(-1e30f32), Just(f32::MIN_POSITIVE), Just(f32::MAX), Just(1e-45f32)].prop_map(|v| v.to_bits()),
            2 => prop_oneof![Just(2.0f32), Just(100.0f32), Just(0.5f32), Just(2.8361f32), Just(300.0f32), Just(-2.0f32)].prop_map(|v| v.to_bits()),
        ]
    };
    (f(), f())
}

pub fn run(ctx: &Ctx, rep: &mut Report) {
    rep.trust("closed form: raw 0 -> below threshold, raw 1 -> range folded, otherwise (raw - offset)/scale computed in f64, or raw itself when scale == 0; 16-bit raws are big-endian halfwords");
    rep.assume("float comparison tolerance 1e-6 relative (admits algebraically equivalent f32 formulas); decode level and model level must agree exactly");
    rep.assume("scale == 0 with raw in {0,1}: sentinel or raw value are both admitted; only agreement of the two levels is required there");
    rep.assume("messages are built from public fields, independent of the decoder");

    // exhaustive raw tables under many (scale, offset) pairs
    for (ws, quick, thorough) in [(8u8, 30_000u64, 4_000_000u64), (16u8, 1_500, 120_000)] {
        let sub = if ws == 8 { "value-tables-8bit" } else { "value-tables-16bit" };
        rep.prop(
            sub,
            if ws == 8 {
                "proptest over finite (scale, offset) pairs (incl. 0, -0, negative, tiny, huge); each case enumerates ALL 256 raw values of an 8-bit moment at decode and model level, laid out into 256 / 257 / 300 / 512 / 513 / 1024 / 1840 / 4099 gates; every table counts as non-trivial unless scale == 0"
            } else {
                "proptest over finite (scale, offset) pairs; each case enumerates ALL 65536 raw values of a 16-bit moment (split into 2-4 blocks at varying points) at decode and model level; non-trivial unless scale == 0"
            },
            ctx.tier.pick(quick, thorough),
            move || (finite_scale_offset(), any::<u8>()).prop_map(move |((scale_bits, offset_bits), layout)| TableCase { word_size: ws, scale_bits, offset_bits, layout }),
            |c| CaseInfo::new(f32::from_bits(c.scale_bits) != 0.0).class(f32::from_bits(c.scale_bits) == 0.0, "scale-zero").class(f32::from_bits(c.scale_bits) < 0.0, "negative-scale"),
            check_table,
        );
        rep.require_class(sub, "scale-zero", 3);
    }

    // first conversion on a brand-new thread (state such as caches starts empty there), incl. day count 0
    {
        let mut n = 0u64;
        let dates: [u16; 8] = [0, 0, 1, 2, 19_000, 32_768, 65_535, 0];
        for (i, date) in dates.iter().enumerate() {
            for time in [0u32, 1, 86_399_999] {
                let mut spec = base_spec();
                spec.header.date = *date;
                spec.header.time = time;
                let follow_up = dates[(i + 3) % dates.len()];
                let c = RadialCase { drd: spec };
                n += 1;
                let r = std::thread::spawn(move || {
                    let first = crate::runner::guard(|| check_radial(&c)).unwrap_or_else(|p| Err(Fail::new("panic:oracle-or-code", p)));
                    // and a second conversion with another date on the same thread
                    let mut c2 = c.clone();
                    c2.drd.header.date = follow_up;
                    let second = crate::runner::guard(|| check_radial(&c2)).unwrap_or_else(|p| Err(Fail::new("panic:oracle-or-code", p)));
                    let third = crate::runner::guard(|| check_radial(&c)).unwrap_or_else(|p| Err(Fail::new("panic:oracle-or-code", p)));
                    (first.and(second).and(third), c)
                })
                .join();
                match r {
                    Ok((Err(f), c)) => rep.record_failure("radials", f, serde_json::json!(c)),
                    Ok((Ok(()), _)) => {}
                    Err(_) => rep.record_failure("radials", Fail::new("panic:oracle-or-code", "fresh-thread probe panicked"), serde_json::Value::Null),
                }
            }
        }
        rep.enumerated("fresh-thread-conversions", "radial conversions performed as the FIRST conversion on a brand-new thread (day counts 0, 1, 2, 19000, 32768, 65535 x times 0, 1, 86399999), followed by a second date and the first again on the same thread", n, n, false);
        rep.sample("fresh-thread-conversions", serde_json::json!({"date": 0, "time": 0}));
    }

    let opts = DrdOpts { contiguous: true, finite: true, big_gates: false, word16: true, valid_datetime: true, small: false, known_vcp: false };
    rep.prop(
        "radials",
        "proptest: decode-level messages built from public fields: valid date/time, all 256 spacing and status codes, finite angles, each of the 7 moments present/absent with 0..=64 (some to 1840) gates of 8 or 16 bits and finite scale/offset; oracle = radial() == into_radial(), accessor-by-accessor mapping, one value per gate by the closed form, decode level == model level; non-trivial = >= 1 moment with >= 2 gates and scale != 0",
        ctx.tier.pick(1_500_000, 20_000_000),
        move || {
            (gen::drd(opts, gen::elevation_any(), None), prop_oneof![12 => Just(0u8), 1 => Just(1u8), 1 => Just(2u8)], any::<u32>()).prop_map(|(mut drd, odd, t)| {
                // outside the documented date-time domain only consistency with the header accessor is judged
                if odd == 1 {
                    drd.header.date = 0;
                }
                if odd == 2 {
                    // a time of day of 24 h or more (the decoder accepts any u32): boundary and arbitrary values
                    drd.header.time = match t % 4 {
                        0 => 86_400_000,
                        1 => 86_400_000 + t % 86_400_000,
                        2 => u32::MAX,
                        _ => t.max(86_400_000),
                    };
                }
                RadialCase { drd }
            })
        },
        |c| {
            let ms: Vec<&MomentSpec> = c.drd.moments.iter().flatten().collect();
            CaseInfo::new(ms.iter().any(|m| m.gates >= 2 && f32::from_bits(m.scale_bits) != 0.0))
                .class(ms.is_empty(), "no-moments")
                .class(ms.len() == 7, "all-seven-moments")
                .class(ms.iter().any(|m| m.word_size == 16 && m.gates > 0), "16-bit-moment")
                .class(ms.iter().any(|m| m.gates == 0), "zero-gates")
                .class(c.drd.header.status >= 6, "status-code-above-5")
                .class(c.drd.header.date == 0, "day-count-zero")
        },
        check_radial,
    );
    rep.require_class("radials", "16-bit-moment", 50);
    rep.require_class("radials", "no-moments", 3);
}

pub fn replay(sub: &str, case: &Value) -> Check {
    match sub {
        "radials" => check_radial(&from_case::<RadialCase>(case)?),
        "value-tables-8bit" | "value-tables-16bit" => check_table(&from_case::<TableCase>(case)?),
        other => super::unknown_sub(other),
    }
}
