//! C15  Latest-volume discovery finds the newest of all 999 volume directories.

use crate::runner::{from_case, no_panic, CaseInfo, Check, Ctx, Fail, Report};
use crate::s3sim::{self, list_document, ListedObject, Request, Response, World};
use crate::{ensure, ensure_eq};
use nexrad_data::aws::realtime::{get_latest_volume, verif_hooks};
use proptest::prelude::*;
use serde::{Deserialize, Serialize};
use serde_json::{json, Value};
use std::cell::Cell;
use std::future::Future;
use std::pin::pin;
use std::sync::{Arc, Mutex};
use std::task::{Context, Poll, RawWaker, RawWakerVTable, Waker};

fn noop_waker() -> Waker {
    fn clone(_: *const ()) -> RawWaker {
        RawWaker::new(std::ptr::null(), &VTABLE)
    }
    fn noop(_: *const ()) {}
    static VTABLE: RawWakerVTable = RawWakerVTable::new(clone, noop, noop, noop);
    unsafe { Waker::from_raw(RawWaker::new(std::ptr::null(), &VTABLE)) }
}

/// Minimal executor for futures that never actually wait (in-memory probes).
pub fn block_on_ready<F: Future>(f: F) -> F::Output {
    let waker = noop_waker();
    let mut cx = Context::from_waker(&waker);
    let mut f = pin!(f);
    loop {
        if let Poll::Ready(v) = f.as_mut().poll(&mut cx) {
            return v;
        }
    }
}

#[derive(Clone, Debug, Serialize, Deserialize)]
pub struct Shape {
    /// number of directories
    pub n: usize,
    /// newest populated directory, 1-based (ignored when populated == 0)
    pub newest: usize,
    /// number of populated directories: one contiguous run in rotation order ending at `newest`
    pub populated: usize,
    /// where the upload times lie relative to any plausible client clock: 0 = all in the past (2023),
    /// 1 = all in the far future (2200), k >= 2 = the newest k-1 directories in the future, the rest in the past
    #[serde(default)]
    pub time_mode: u32,
    /// what the populated directories hold: 0 = start chunk + two intermediate chunks everywhere; otherwise the
    /// content varies per directory (no start chunk: 002-I/003-I; a lone end chunk 055-E; names that are not chunk
    /// names at all), because "first chunk" means the first listed object, not the chunk called 001-S
    #[serde(default)]
    pub content_mode: u32,
}

impl Shape {
    /// upload time (arbitrary increasing unit) of directory `dir` (1-based), None when empty
    pub fn time_of(&self, dir: usize) -> Option<i64> {
        if self.populated == 0 {
            return None;
        }
        // distance back from the newest directory in rotation order
        let back = (self.newest + self.n - dir) % self.n;
        if back < self.populated {
            Some(1_000_000 - back as i64)
        } else {
            None
        }
    }
    pub fn wrapped(&self) -> bool {
        self.populated > 0 && self.newest < self.populated && self.populated < self.n
    }
}

pub fn call_bound(n: usize) -> usize {
    let log = (usize::BITS - (n + 1).leading_zeros()) as usize; // >= ceil(log2(n+1))
    n + 2 * log + 3
}

/// (i) the rotated search itself, driven through the guarded wrapper exactly as get_latest_volume calls it.
pub fn check_search_shape(s: &Shape) -> Check {
    let calls = Cell::new(0usize);
    let out_of_range = Cell::new(None);
    let result = no_panic("search", || {
        block_on_ready(verif_hooks::search(s.n, i64::MAX, |i| {
            calls.set(calls.get() + 1);
            if i >= s.n {
                out_of_range.set(Some(i));
            }
            let v = if i < s.n { s.time_of(i + 1) } else { None };
            async move { Ok(v) }
        }))
    })?
    .map_err(|e| Fail::new("search:error", format!("{:?}", e)))?;
    ensure!(out_of_range.get().is_none(), "search:probe-out-of-range", "probed index {:?} of {} elements", out_of_range.get(), s.n);
    let want = if s.populated == 0 { None } else { Some(s.newest - 1) };
    if result != want {
        let sig = if s.wrapped() { "search:stale-directory-wrapped-run" } else { "search:wrong-directory" };
        return Err(Fail::new(
            sig,
            format!("n={} newest={} populated={}: search returned {:?}, the newest populated directory is index {:?}", s.n, s.newest, s.populated, result, want),
        ));
    }
    ensure!(calls.get() <= call_bound(s.n), "search:too-many-probes", "n={} newest={} populated={}: {} probes, bound {}", s.n, s.newest, s.populated, calls.get(), call_bound(s.n));
    Ok(())
}

// ---------------------------------------------------------------------------------------------
// (ii) the real entry point against the simulator
// ---------------------------------------------------------------------------------------------

pub struct ShapeWorld {
    pub site: String,
    pub shape: Shape,
    pub log: Vec<Request>,
    cache: Option<Vec<ListedObject>>,
}

impl ShapeWorld {
    /// All object keys of the bucket with their LastModified, in S3 (byte) order.
    fn all_objects(&self) -> Vec<ListedObject> {
        let mut objects = Vec::new();
        for d in 1..=self.shape.n {
            if let Some(t) = self.shape.time_of(d) {
                // several chunks in the directory; the first listed one carries the directory's upload time
                let names: Vec<String> = match if self.shape.content_mode == 0 { 0 } else { (d * 7 + self.shape.content_mode as usize) % 4 } {
                    0 => vec!["20240804-101007-001-S".into(), "20240804-101007-002-I".into(), "20240804-101007-003-I".into()],
                    1 => vec!["20240804-101007-002-I".into(), "20240804-101007-003-I".into()],
                    2 => vec!["20240804-101007-055-E".into()],
                    _ => vec!["0-first-object".into(), "zz-last-object".into()],
                };
                for (k, name) in names.iter().enumerate() {
                    // the listing timestamps may lie in the client's future (clock skew): the statement
                    // speaks of the most recent upload, not of uploads before "now"
                    let back = 1_000_000 - t;
                    let future = match self.shape.time_mode {
                        0 => false,
                        1 => true,
                        m => back < (m as i64 - 1),
                    };
                    let base: i64 = if future { 7_258_118_400 } else { 1_700_000_000 };
                    // later chunks of a directory may be uploaded after the first chunk of the next directory (an end chunk
                    // that reaches the bucket after the next volume has started): the spread between the chunks of one
                    // directory is 1 s, 7 s or 15 s while directories start 10 s apart
                    let spread = [1i64, 7, 15][(self.shape.content_mode % 3) as usize];
                    let secs = base + t * 10 + k as i64 * spread;
                    let dt = chrono::DateTime::<chrono::Utc>::from_timestamp(secs, 0).expect("valid time");
                    objects.push(ListedObject {
                        key: format!("{}/{}/{}", self.site, d, name),
                        // equivalent spellings of the instant (Z, +00:00, numeric offsets that differ between directories)
                        last_modified: crate::s3sim::spell_instant(dt, (self.shape.content_mode / 3 + self.shape.time_mode) as u8, d as u64),
                        size: "1234".into(),
                    });
                }
            }
        }
        objects.sort_by(|a, b| a.key.as_bytes().cmp(b.key.as_bytes()));
        objects
    }
}

impl World for ShapeWorld {
    fn handle(&mut self, req: &Request) -> Response {
        self.log.push(req.clone());
        if !req.is_list() {
            return Response::new(404, Vec::new());
        }
        // faithful S3 semantics: plain string prefix over keys in byte order, then max-keys
        let prefix = req.query_value("prefix").unwrap_or("").to_string();
        let max_keys = req.query_value("max-keys").and_then(|v| v.parse::<usize>().ok());
        if self.cache.is_none() {
            self.cache = Some(self.all_objects());
        }
        let objects: Vec<ListedObject> = self.cache.as_ref().expect("cached").iter().filter(|o| o.key.starts_with(&prefix)).cloned().collect();
        let mut objects = crate::s3sim::page_after(objects, req);
        let total = objects.len();
        objects.truncate(max_keys.unwrap_or(1000).min(1000));
        let truncated = objects.len() < total;
        Response::xml(list_document(req.bucket(), &prefix, &objects, truncated, self.shape.content_mode % 2 == 0, self.shape.newest % 2 == 0, max_keys))
    }
}

pub fn runtime() -> tokio::runtime::Runtime {
    tokio::runtime::Builder::new_current_thread().enable_all().start_paused(true).build().expect("tokio runtime")
}

static SITE_COUNTER: std::sync::atomic::AtomicU64 = std::sync::atomic::AtomicU64::new(0);

/// A fresh 4-character site id [A-Z0-9]{4} unique within the process.
pub fn fresh_site() -> String {
    let mut n = SITE_COUNTER.fetch_add(1, std::sync::atomic::Ordering::Relaxed);
    let alphabet = b"ABCDEFGHIJKLMNOPQRSTUVWXYZ0123456789";
    let mut s = Vec::new();
    // first character a letter (so that no directory number can contain the id), then base 36
    s.push(b'A' + (n % 26) as u8);
    n /= 26;
    for _ in 0..3 {
        s.push(alphabet[(n % 36) as usize]);
        n /= 36;
    }
    String::from_utf8(s).expect("ascii")
}

pub fn check_http_shape(s: &Shape) -> Check {
    ensure!(s.n == 999, "replay-format", "the production entry point always has 999 directories");
    let server = s3sim::global();
    let site = fresh_site();
    let world = Arc::new(Mutex::new(ShapeWorld { site: site.clone(), shape: s.clone(), log: Vec::new(), cache: None }));
    server.register(&site, world.clone());
    let rt = runtime();
    let result = no_panic("get_latest_volume", || rt.block_on(get_latest_volume(&site)));
    server.unregister(&site);
    let result = result?.map_err(|e| Fail::new("latest:error", format!("{:?}", e)))?;
    let log = world.lock().unwrap_or_else(|e| e.into_inner()).log.clone();

    let want = if s.populated == 0 { None } else { Some(s.newest) };
    let got = result.volume.map(|v| v.as_number());
    if got != want {
        let sig = if want == Some(999) && got != Some(999) {
            "latest:directory-999-never-examined"
        } else if s.wrapped() {
            "latest:stale-directory-wrapped-run"
        } else {
            "latest:wrong-directory"
        };
        return Err(Fail::new(sig, format!("newest={} populated={}: get_latest_volume returned {:?}, expected {:?}", s.newest, s.populated, got, want)));
    }
    ensure_eq!(result.calls, log.len(), "latest:call-count-differs-from-requests-issued", "newest={} populated={}", s.newest, s.populated);
    ensure!(log.len() <= call_bound(999), "latest:too-many-requests", "{} listing requests, bound {}", log.len(), call_bound(999));
    // how the listings are phrased (prefix form, max-keys) is not part of the statement; only rotation bounds are
    for r in &log {
        let prefix = r.query_value("prefix").unwrap_or("");
        if let Some(rest) = prefix.strip_prefix(&format!("{}/", site)) {
            let digits: String = rest.chars().take_while(|c| c.is_ascii_digit()).collect();
            if let Ok(d) = digits.parse::<usize>() {
                ensure!((1..=999).contains(&d), "latest:directory-outside-1..=999", "listing prefix {:?}", prefix);
            }
        }
    }
    Ok(())
}

pub fn classify(s: &Shape) -> CaseInfo {
    CaseInfo::new((s.populated > 0 && s.populated < s.n) || s.wrapped())
        .class(s.wrapped(), "wrapped")
        .class(s.populated == 0, "all-empty")
        .class(s.populated == s.n, "full")
        .class(s.populated == 1, "single")
        .class(s.populated > 0 && s.newest == s.n, "newest-is-last-directory")
        .class(s.populated > 0 && s.populated < s.n && s.newest == s.populated, "gap-at-end")
        .class(s.time_mode == 1, "upload-times-in-the-future")
        .class(s.time_mode >= 2, "upload-times-straddle-now")
        .class(s.content_mode != 0, "directories-without-start-chunk")
        .class(s.content_mode % 3 != 0, "later-chunks-newer-than-next-directory-start")
}

pub fn run(ctx: &Ctx, rep: &mut Report) {
    rep.journal_cases = true;
    rep.trust("reference: the newest populated directory of a contiguous rotation run with distinct increasing upload times; the simulator's request log");
    rep.assume("populated directories form one contiguous run in rotation order with distinct increasing first-chunk times (the statement's domain)");

    // (i) exhaustive shapes through the guarded search wrapper: sizes 1..=64 and the production size
    {
        let threads = ctx.threads.max(1);
        let mut sizes: Vec<usize> = (1..=64).collect();
        sizes.push(999);
        let mut total = 0u64;
        let mut nt = 0u64;
        for n in sizes {
            let fails: Vec<Vec<(Fail, Shape)>> = std::thread::scope(|scope| {
                let hs: Vec<_> = (0..threads)
                    .map(|w| {
                        scope.spawn(move || {
                            let mut fails: Vec<(Fail, Shape)> = Vec::new();
                            let mut newest = 1 + w;
                            while newest <= n {
                                for populated in 1..=n {
                                    let s = Shape { n, newest, populated, time_mode: 0, content_mode: 0 };
                                    let r = crate::runner::guard(|| check_search_shape(&s)).unwrap_or_else(|p| Err(Fail::new("panic:oracle-or-code", p)));
                                    if let Err(f) = r {
                                        if fails.iter().all(|(g, _)| g.sig != f.sig) {
                                            fails.push((f, s));
                                        }
                                    }
                                }
                                newest += threads;
                            }
                            fails
                        })
                    })
                    .collect();
                hs.into_iter().map(|h| h.join().expect("worker")).collect()
            });
            for fs in fails {
                for (f, s) in fs {
                    rep.record_failure("search-shapes", f, json!(s));
                }
            }
            let empty = Shape { n, newest: 1, populated: 0, time_mode: 0, content_mode: 0 };
            if let Err(f) = check_search_shape(&empty) {
                rep.record_failure("search-shapes", f, json!(empty));
            }
            total += (n * n + 1) as u64;
            nt += (n * (n - 1)) as u64; // shapes with at least one empty directory (0 < populated < n)
        }
        rep.enumerated(
            "search-shapes",
            "every bucket shape (newest position x populated count, plus all-empty) for array sizes 1..=64 and the production size 999 (998 002 shapes), driven through the guarded public wrapper of the crate-private search with target = max, as get_latest_volume calls it; non-trivial = at least one empty directory",
            total,
            nt,
            true,
        );
        rep.sample("search-shapes", json!({"n": 999, "newest": 3, "populated": 500}));
    }

    // (ii) the real entry point over HTTP
    {
        let fixed: Vec<Shape> = {
            let mut v = vec![Shape { n: 999, newest: 1, populated: 0, time_mode: 0, content_mode: 0 }];
            for p in [1usize, 2, 500, 997, 998, 999] {
                for c in [1usize, 2, 500, 998, 999] {
                    v.push(Shape { n: 999, newest: p, populated: c, time_mode: ((p + c) % 4) as u32, content_mode: ((p * 3 + c) % 5) as u32 });
                }
            }
            v
        };
        for s in &fixed {
            let r = crate::runner::guard(|| check_http_shape(s)).unwrap_or_else(|p| Err(Fail::new("panic:oracle-or-code", p)));
            if let Err(f) = r {
                rep.record_failure("latest-volume-http", f, json!(s));
            }
        }
        rep.enumerated("latest-volume-http-fixed", "get_latest_volume over HTTP against the simulator for newest in {1,2,500,997,998,999} x populated in {1,2,500,998,999} and the all-empty bucket", fixed.len() as u64, fixed.len() as u64 - 7, false);
        rep.sample("latest-volume-http-fixed", json!({"n": 999, "newest": 999, "populated": 2}));
    }
    let _ = s3sim::global();
    rep.prop(
        "latest-volume-http",
        "proptest: production-size bucket shapes (newest 1..=999, populated 0..=999, boundary values boosted) served by the loopback S3 simulator (one object listing per populated directory, distinct increasing LastModified); get_latest_volume must return the newest directory, report exactly the number of listing requests the simulator logged, stay within the logarithmic call bound and never name a directory outside 1..=999 (the simulator applies S3's plain string-prefix / byte-order semantics); non-trivial = at least one empty directory",
        ctx.tier.pick(800, 20_000),
        || {
            let pos = || prop_oneof![6 => 1usize..=999, 1 => Just(1usize), 1 => Just(999usize), 1 => Just(998usize), 1 => 1usize..=5, 1 => 995usize..=999];
            let cnt = prop_oneof![6 => 1usize..=999, 1 => Just(1usize), 1 => Just(999usize), 1 => Just(0usize), 2 => 1usize..=20, 1 => 980usize..=999];
            let mode = prop_oneof![3 => Just(0u32), 2 => Just(1u32), 2 => 2u32..=6, 1 => 2u32..=600];
            (pos(), cnt, mode, 0u32..6).prop_map(|(newest, populated, time_mode, content_mode)| Shape { n: 999, newest, populated, time_mode, content_mode })
        },
        classify,
        check_http_shape,
    );
    rep.require_class("latest-volume-http", "wrapped", 20);
    rep.require_class("latest-volume-http", "newest-is-last-directory", 5);
    rep.require_class("latest-volume-http", "upload-times-in-the-future", 20);
    rep.require_class("latest-volume-http", "upload-times-straddle-now", 20);
}

pub fn replay(sub: &str, case: &Value) -> Check {
    match sub {
        "search-shapes" => check_search_shape(&from_case::<Shape>(case)?),
        "latest-volume-http" | "latest-volume-http-fixed" => {
            let _ = s3sim::global();
            check_http_shape(&from_case::<Shape>(case)?)
        }
        other => super::unknown_sub(other),
    }
}
