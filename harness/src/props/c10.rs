//! C10  Message header: layout, type mapping and size semantics.

use crate::gen;
use crate::runner::{from_case, no_panic, CaseInfo, Check, Ctx, Fail, Report};
use crate::wire::MsgHeaderSpec;
use crate::{ensure, ensure_eq};
use nexrad_decode::messages::message_header::MessageHeader;
use nexrad_decode::messages::{decode_message_header, MessageType};
use proptest::prelude::*;
use serde_json::{json, Value};
use uom::si::information::byte;

/// The 29 defined type codes (ICD table II) and the variant each must map to.
pub const DEFINED_TYPES: [(u8, MessageType); 29] = [
    (1, MessageType::RDADigitalRadarData),
    (2, MessageType::RDAStatusData),
    (3, MessageType::RDAPerformanceMaintenanceData),
    (4, MessageType::RDAConsoleMessage),
    (5, MessageType::RDAVolumeCoveragePattern),
    (6, MessageType::RDAControlCommands),
    (7, MessageType::RPGVolumeCoveragePattern),
    (8, MessageType::RPGClutterCensorZones),
    (9, MessageType::RPGRequestForData),
    (10, MessageType::RPGConsoleMessage),
    (11, MessageType::RDALoopBackTest),
    (12, MessageType::RPGLoopBackTest),
    (13, MessageType::RDAClutterFilterBypassMap),
    (14, MessageType::Spare1),
    (15, MessageType::RDAClutterFilterMap),
    (16, MessageType::ReservedFAARMSOnly1),
    (17, MessageType::ReservedFAARMSOnly2),
    (18, MessageType::RDAAdaptationData),
    (20, MessageType::Reserved1),
    (21, MessageType::Reserved2),
    (22, MessageType::Reserved3),
    (23, MessageType::Reserved4),
    (24, MessageType::ReservedFAARMSOnly3),
    (25, MessageType::ReservedFAARMSOnly4),
    (26, MessageType::ReservedFAARMSOnly5),
    (29, MessageType::Reserved5),
    (31, MessageType::RDADigitalRadarDataGenericFormat),
    (32, MessageType::RDAPRFData),
    (33, MessageType::RDALogData),
];

pub const CHANNELS: [(u8, &str); 6] = [
    (0, "LegacySingleChannel"),
    (1, "LegacyRedundantChannel1"),
    (2, "LegacyRedundantChannel2"),
    (8, "ORDASingleChannel"),
    (9, "ORDARedundantChannel1"),
    (10, "ORDARedundantChannel2"),
];

pub fn expected_type(code: u8) -> MessageType {
    DEFINED_TYPES
        .iter()
        .find(|(c, _)| *c == code)
        .map(|(_, t)| *t)
        .unwrap_or(MessageType::Unknown(code))
}

pub fn decode(spec: &MsgHeaderSpec) -> Result<MessageHeader, Fail> {
    let bytes = spec.encode();
    decode_message_header(&mut &bytes[..]).map_err(|e| Fail::new("header-decode-error", format!("{:?}", e)))
}

/// Field-by-field layout comparison (shared with C03).
pub fn check_layout(spec: &MsgHeaderSpec, h: &MessageHeader) -> Check {
    ensure_eq!(h.segment_size, spec.size, "layout:segment_size@12");
    ensure_eq!(h.redundant_channel, spec.channel, "layout:redundant_channel@14");
    ensure_eq!(h.message_type, spec.mtype, "layout:message_type@15");
    ensure_eq!(h.sequence_number, spec.seq, "layout:sequence_number@16");
    ensure_eq!(h.date, spec.date, "layout:date@18");
    ensure_eq!(h.time, spec.time, "layout:time@20");
    ensure_eq!(h.segment_count, spec.seg_count, "layout:segment_count@24");
    ensure_eq!(h.segment_number, spec.seg_num, "layout:segment_number@26");
    Ok(())
}

/// The whole C10 oracle for one header.
pub fn check_header(spec: &MsgHeaderSpec) -> Check {
    let h = no_panic("decode_message_header", || decode(spec))??;
    check_layout(spec, &h)?;
    // the same bytes delivered in short reads must decode to the same header
    let bytes = spec.encode();
    for step in crate::runner::CHUNK_STEPS {
        let mut r = crate::runner::Chunked::new(&bytes, step);
        let hc = no_panic("decode_message_header", || decode_message_header(&mut r))?
            .map_err(|e| Fail::new("header-decode-error-short-reads", format!("reader delivering {} byte(s) per read: {:?}", step, e)))?;
        ensure!(hc == h, "layout:depends-on-read-chunking", "header decoded from a reader delivering {} byte(s) per read differs from the slice decode", step);
    }

    {
        // a reader positioned inside a larger source must give the same header
        let lead = 1 + (spec.seq as usize) % 40;
        let mut shifted = vec![0xEEu8; lead];
        shifted.extend_from_slice(&bytes);
        let mut cur = std::io::Cursor::new(&shifted[..]);
        cur.set_position(lead as u64);
        let hp = no_panic("decode_message_header", || decode_message_header(&mut cur))?
            .map_err(|e| Fail::new("header-decode-error-at-offset", format!("reader positioned {} bytes into its source: {:?}", lead, e)))?;
        ensure!(hp == h, "layout:depends-on-reader-position", "header decoded from a reader positioned {} bytes into its source differs from the slice decode", lead);
    }

    {
        // sibling entry point: the header a decoded *message* carries is this same header, field for field
        let mut frame = bytes.to_vec();
        frame.resize(2432, 0);
        let got = no_panic("decode_messages", || nexrad_decode::messages::decode_messages(&mut std::io::Cursor::new(&frame[..])))?;
        if let Ok(msgs) = got {
            if let Some(m) = msgs.first() {
                check_layout(spec, m.header()).map_err(|f| Fail::new(format!("message-header:{}", f.sig), format!("header carried by the message decode_messages returns: {}", f.detail)))?;
                ensure!(*m.header() == h, "message-header:differs-from-header-decode", "the header carried by the decoded message differs from decode_message_header's: {:?} vs {:?}", m.header(), h);
            }
        }
    }

    // type mapping
    let t = no_panic("message_type", || h.message_type())?;
    ensure_eq!(t, expected_type(spec.mtype), "type-map", "code {}", spec.mtype);
    // ... and as the variant itself (Debug rendering), not only through the type's own PartialEq
    ensure_eq!(format!("{:?}", t), format!("{:?}", expected_type(spec.mtype)), "type-map", "code {} (variant compared by its Debug rendering)", spec.mtype);

    // channel mapping on its defined domain
    if let Some((_, name)) = CHANNELS.iter().find(|(c, _)| *c == spec.channel) {
        let ch = no_panic("rda_redundant_channel", || format!("{:?}", h.rda_redundant_channel()))?;
        ensure_eq!(ch.as_str(), *name, "channel-map", "code {}", spec.channel);
    }

    // size semantics
    let variable = spec.size == 0xFFFF;
    let segmented = no_panic("segmented", || h.segmented())?;
    ensure_eq!(segmented, !variable, "segmented-rule", "size {:#x}", spec.size);

    let count = no_panic("segment_count", || h.segment_count())?;
    let number = no_panic("segment_number", || h.segment_number())?;
    let plain = no_panic("message_size_bytes", || h.message_size_bytes())?;
    let uom_size = no_panic("message_size", || h.message_size().get::<byte>())?;
    let uom_segment = no_panic("segment_size", || h.segment_size().map(|s| s.get::<byte>()))?;

    if variable {
        let want = ((spec.seg_count as u32) << 16) | spec.seg_num as u32;
        ensure_eq!(plain, want, "variable-size-rule", "count {:#x} number {:#x}", spec.seg_count, spec.seg_num);
        ensure_eq!(count, None, "variable-segment-count-absent");
        ensure_eq!(number, None, "variable-segment-number-absent");
        ensure_eq!(uom_segment, None, "variable-segment-size-absent");
    } else {
        let want = 2 * spec.size as u32;
        ensure_eq!(plain, want, "segmented-size-rule", "size {:#x}", spec.size);
        ensure_eq!(count, Some(spec.seg_count), "segmented-segment-count");
        ensure_eq!(number, Some(spec.seg_num), "segmented-segment-number");
        ensure_eq!(uom_segment, Some(want as f64), "segment-size-uom", "size {:#x}", spec.size);
    }
    // unit-typed and plain accessors agree for every header
    ensure_eq!(uom_size, plain as f64, "uom-plain-agree", "size {:#x} count {:#x} number {:#x}", spec.size, spec.seg_count, spec.seg_num);
    Ok(())
}

fn base_spec() -> MsgHeaderSpec {
    MsgHeaderSpec {
        rpg: [0xA5; 12],
        size: 1208,
        channel: 8,
        mtype: 31,
        seq: 0x1234,
        date: 19_999,
        time: 12_345_678,
        seg_count: 1,
        seg_num: 1,
    }
}

pub fn run(ctx: &Ctx, rep: &mut Report) {
    rep.trust("independent wire encoder (message header offsets 12,14,15,16,18,20,24,26)");
    rep.trust("type table transcribed from ICD table II / the MessageType enum's documented discriminants");
    rep.assume("rda_redundant_channel is only judged on its six defined codes (the statement makes no claim elsewhere)");

    // ---- exhaustive type axis ---------------------------------------------------------------
    {
        let mut seen = std::collections::HashSet::new();
        for code in 0..=255u8 {
            let mut s = base_spec();
            s.mtype = code;
            if let Err(f) = check_header(&s) {
                rep.record_failure("type-axis", f, json!(s));
            }
            if let Ok(h) = decode(&s) {
                seen.insert(format!("{:?}", h.message_type()));
            }
        }
        if seen.len() != 256 {
            rep.record_failure(
                "type-axis",
                Fail::new("type-map-not-injective", format!("256 codes map to only {} distinct types", seen.len())),
                json!({"distinct": seen.len()}),
            );
        }
        rep.enumerated("type-axis", "all 256 type codes; each is a distinct point, the 29 defined codes + 227 preserved-verbatim codes", 256, 256, true);
        rep.sample("type-axis", json!({"mtype": 31}));
        for (code, _) in CHANNELS {
            let mut s = base_spec();
            s.channel = code;
            if let Err(f) = check_header(&s) {
                rep.record_failure("channel-axis", f, json!(s));
            }
        }
        rep.enumerated("channel-axis", "the six defined redundant-channel codes", 6, 6, true);
        rep.sample("channel-axis", json!({"channel": 9}));
    }

    // ---- exhaustive size axis x 16 (count, number) pairs ---------------------------------------
    {
        let pairs: [(u16, u16); 16] = [
            (0, 0),
            (0, 1),
            (1, 0),
            (1, 1),
            (0xFFFF, 0xFFFF),
            (0x8000, 0x8000),
            (0x8000, 0),
            (0, 0x8000),
            (0x7FFF, 0xFFFF),
            (0xFFFF, 0),
            (0, 0xFFFF),
            (2, 1),
            (0x1234, 0x5678),
            (0x00FF, 0xFF00),
            (0xAAAA, 0x5555),
            (5, 3),
        ];
        let threads = ctx.threads.max(1);
        let fails: Vec<Vec<(Fail, MsgHeaderSpec)>> = std::thread::scope(|scope| {
            let hs: Vec<_> = (0..threads)
                .map(|w| {
                    scope.spawn(move || {
                        let mut fails: Vec<(Fail, MsgHeaderSpec)> = Vec::new();
                        let mut size = w as u32;
                        while size <= 0xFFFF {
                            for (c, n) in pairs {
                                let mut s = base_spec();
                                s.size = size as u16;
                                s.seg_count = c;
                                s.seg_num = n;
                                if let Err(f) = check_header(&s) {
                                    if fails.iter().all(|(g, _)| g.sig != f.sig) {
                                        fails.push((f, s));
                                    }
                                }
                            }
                            size += threads as u32;
                        }
                        fails
                    })
                })
                .collect();
            hs.into_iter().map(|h| h.join().expect("worker")).collect()
        });
        for fs in fails {
            for (f, s) in fs {
                rep.record_failure("size-axis", f, json!(s));
            }
        }
        rep.enumerated(
            "size-axis",
            "all 65536 size values x 16 fixed (count, number) pairs; non-trivial = size >= 32768 (doubling overflows 16 bits) or size == 0xFFFF (variable-length regime)",
            65_536 * 16,
            32_768 * 16,
            true,
        );
        rep.sample("size-axis", json!({"size": 0xFFFF, "seg_count": 0x1234, "seg_num": 0x5678}));
    }

    // ---- random (count, number) pairs in the variable-length regime + random full headers --------
    let n_pairs = ctx.tier.pick(3_000_000u64, 60_000_000u64);
    rep.prop(
        "variable-length-pairs",
        "proptest: size = 0xFFFF, arbitrary (count, number) with boosted edge values; non-trivial = both halves non-zero",
        n_pairs,
        || {
            let half = || prop_oneof![6 => any::<u16>(), 1 => Just(0u16), 1 => Just(0xFFFFu16), 1 => Just(0x8000u16), 1 => 0u16..=3];
            (half(), half()).prop_map(|(c, n)| {
                let mut s = base_spec();
                s.size = 0xFFFF;
                s.seg_count = c;
                s.seg_num = n;
                s
            })
        },
        |s| CaseInfo::new(s.seg_count != 0 && s.seg_num != 0).class(s.seg_count >= 0x8000, "count-high-bit"),
        check_header,
    );
    let n_layout = ctx.tier.pick(1_500_000u64, 30_000_000u64);
    rep.prop(
        "layout-random",
        "proptest: every header field an arbitrary value of its wire type (type code boosted to 2/5/15/31, channel from its six codes), 12 random RPG bytes; non-trivial = size >= 32768 or size == 0xFFFF",
        n_layout,
        || {
            (gen::type_code(), prop_oneof![3 => any::<u16>(), 1 => Just(0xFFFFu16), 1 => 0x8000u16..=0xFFFF])
                .prop_flat_map(|(t, size)| {
                    gen::msg_header(t, None).prop_map(move |mut h| {
                        h.size = size;
                        h
                    })
                })
        },
        |s| CaseInfo::new(s.size >= 0x8000).class(s.size == 0xFFFF, "variable").class(s.size < 0x8000, "small-size"),
        check_header,
    );
}

pub fn replay(sub: &str, case: &Value) -> Check {
    match sub {
        "type-axis" | "channel-axis" | "size-axis" | "variable-length-pairs" | "layout-random" => {
            let s: MsgHeaderSpec = from_case(case)?;
            ensure!(true, "unused", "");
            check_header(&s)
        }
        other => super::unknown_sub(other),
    }
}
