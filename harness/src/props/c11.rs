//! C11  Volume Coverage Pattern message: layout, scaling and bit fields.

use crate::gen;
use crate::model::{icd_angle, icd_rate, rel_close};
use crate::props::c19::cut_block;
use crate::runner::{from_case, hash_bytes, no_panic, CaseInfo, Check, Ctx, Fail, Report};
use crate::wire::{BodySpec, CutSpec, MsgHeaderSpec, MsgSpec, VcpHeaderSpec, VcpSpec, FRAME_BODY_LEN, MSG_HEADER_LEN};
use crate::{ensure, ensure_eq};
use nexrad_decode::messages::volume_coverage_pattern as vcp;
use nexrad_decode::messages::{decode_messages, MessageContents};
use proptest::prelude::*;
use serde::{Deserialize, Serialize};
use serde_json::{json, Value};
use std::io::Cursor;
use uom::si::angle::degree;
use uom::si::angular_velocity::degree_per_second;
use uom::si::velocity::meter_per_second;

pub fn check_header_fields(s: &VcpHeaderSpec, h: &vcp::Header) -> Check {
    ensure_eq!(h.message_size, s.message_size, "vcp-layout:message_size@0");
    ensure_eq!(h.pattern_type, s.pattern_type, "vcp-layout:pattern_type@2");
    ensure_eq!(h.pattern_number, s.pattern_number, "vcp-layout:pattern_number@4");
    ensure_eq!(h.number_of_elevation_cuts, s.declared_cuts, "vcp-layout:number_of_elevation_cuts@6");
    ensure_eq!(h.version, s.version, "vcp-layout:version@8");
    ensure_eq!(h.clutter_map_group_number, s.clutter_group, "vcp-layout:clutter_map_group_number@9");
    ensure_eq!(h.doppler_velocity_resolution, s.doppler_res, "vcp-layout:doppler_velocity_resolution@10");
    ensure_eq!(h.pulse_width, s.pulse_width, "vcp-layout:pulse_width@11");
    ensure_eq!(h.reserved_1, s.reserved1, "vcp-layout:reserved_1@12");
    ensure_eq!(h.vcp_sequencing, s.sequencing, "vcp-layout:vcp_sequencing@16");
    ensure_eq!(h.vcp_supplemental_data, s.supplemental, "vcp-layout:vcp_supplemental_data@18");
    ensure_eq!(h.reserved_2, s.reserved2, "vcp-layout:reserved_2@20");
    Ok(())
}

pub fn check_cut_fields(i: usize, s: &CutSpec, e: &vcp::ElevationDataBlock) -> Check {
    ensure_eq!(e.elevation_angle, s.elevation_angle, "cut-layout:elevation_angle@0", "cut {}", i);
    ensure_eq!(e.channel_configuration, s.channel, "cut-layout:channel_configuration@2", "cut {}", i);
    ensure_eq!(e.waveform_type, s.waveform, "cut-layout:waveform_type@3", "cut {}", i);
    ensure_eq!(e.super_resolution_control, s.super_res, "cut-layout:super_resolution_control@4", "cut {}", i);
    ensure_eq!(e.surveillance_prf_number, s.surv_prf, "cut-layout:surveillance_prf_number@5", "cut {}", i);
    ensure_eq!(e.surveillance_prf_pulse_count_radial, s.surv_count, "cut-layout:surveillance_prf_pulse_count_radial@6", "cut {}", i);
    ensure_eq!(e.azimuth_rate, s.azimuth_rate, "cut-layout:azimuth_rate@8", "cut {}", i);
    ensure_eq!(e.reflectivity_threshold, s.ref_thr, "cut-layout:reflectivity_threshold@10", "cut {}", i);
    ensure_eq!(e.velocity_threshold, s.vel_thr, "cut-layout:velocity_threshold@12", "cut {}", i);
    ensure_eq!(e.spectrum_width_threshold, s.sw_thr, "cut-layout:spectrum_width_threshold@14", "cut {}", i);
    ensure_eq!(e.differential_reflectivity_threshold, s.zdr_thr, "cut-layout:differential_reflectivity_threshold@16", "cut {}", i);
    ensure_eq!(e.differential_phase_threshold, s.phi_thr, "cut-layout:differential_phase_threshold@18", "cut {}", i);
    ensure_eq!(e.correlation_coefficient_threshold, s.rho_thr, "cut-layout:correlation_coefficient_threshold@20", "cut {}", i);
    ensure_eq!(e.sector_1_edge_angle, s.s1_edge, "cut-layout:sector_1_edge_angle@22", "cut {}", i);
    ensure_eq!(e.sector_1_doppler_prf_number, s.s1_prf, "cut-layout:sector_1_doppler_prf_number@24", "cut {}", i);
    ensure_eq!(e.sector_1_doppler_prf_pulse_count_radial, s.s1_count, "cut-layout:sector_1_doppler_prf_pulse_count_radial@26", "cut {}", i);
    ensure_eq!(e.supplemental_data, s.supplemental, "cut-layout:supplemental_data@28", "cut {}", i);
    ensure_eq!(e.sector_2_edge_angle, s.s2_edge, "cut-layout:sector_2_edge_angle@30", "cut {}", i);
    ensure_eq!(e.sector_2_doppler_prf_number, s.s2_prf, "cut-layout:sector_2_doppler_prf_number@32", "cut {}", i);
    ensure_eq!(e.sector_2_doppler_prf_pulse_count_radial, s.s2_count, "cut-layout:sector_2_doppler_prf_pulse_count_radial@34", "cut {}", i);
    ensure_eq!(e.ebc_angle, s.ebc, "cut-layout:ebc_angle@36", "cut {}", i);
    ensure_eq!(e.sector_3_edge_angle, s.s3_edge, "cut-layout:sector_3_edge_angle@38", "cut {}", i);
    ensure_eq!(e.sector_3_doppler_prf_number, s.s3_prf, "cut-layout:sector_3_doppler_prf_number@40", "cut {}", i);
    ensure_eq!(e.sector_3_doppler_prf_pulse_count_radial, s.s3_count, "cut-layout:sector_3_doppler_prf_pulse_count_radial@42", "cut {}", i);
    ensure_eq!(e.reserved, s.reserved, "cut-layout:reserved@44", "cut {}", i);
    Ok(())
}

/// Compare a decoded VCP message with its spec (shared with C03).
pub fn check_vcp_message(s: &VcpSpec, m: &vcp::Message) -> Check {
    check_header_fields(&s.header, &m.header)?;
    ensure_eq!(m.elevations.len(), s.cuts.len(), "vcp:cut-count", "declared {}", s.header.declared_cuts);
    for (i, (cs, ce)) in s.cuts.iter().zip(m.elevations.iter()).enumerate() {
        check_cut_fields(i, cs, ce)?;
    }
    Ok(())
}

#[derive(Clone, Debug, Serialize, Deserialize)]
pub struct LayoutCase {
    pub vcp: VcpSpec,
    pub filler: Vec<u8>,
    pub header: MsgHeaderSpec,
}

pub fn check_layout(c: &LayoutCase) -> Check {
    ensure!(c.vcp.cuts.len() <= 51 && c.vcp.header.declared_cuts as usize == c.vcp.cuts.len(), "replay-format", "not a well-formed VCP case");
    // direct entry point, body only
    let body = c.vcp.encode();
    let direct = no_panic("decode_volume_coverage_pattern", || vcp::decode_volume_coverage_pattern(&mut &body[..]))?
        .map_err(|e| Fail::new("vcp:wellformed-rejected", format!("direct decode failed: {:?}", e)))?;
    check_vcp_message(&c.vcp, &direct)?;
    for step in crate::runner::CHUNK_STEPS {
        let mut r = crate::runner::Chunked::new(&body, step);
        let mc = no_panic("decode_volume_coverage_pattern", || vcp::decode_volume_coverage_pattern(&mut r))?
            .map_err(|e| Fail::new("vcp:decode-error-short-reads", format!("reader delivering {} byte(s) per read: {:?}", step, e)))?;
        ensure!(mc == direct, "vcp-layout:depends-on-read-chunking", "VCP decoded from a reader delivering {} byte(s) per read differs from the slice decode", step);
    }
    // frame path
    let msg = MsgSpec { header: c.header.clone(), body: BodySpec::Vcp(c.vcp.clone(), c.filler.clone()) };
    let bytes = msg.encode();
    let decoded = no_panic("decode_messages", || decode_messages(&mut Cursor::new(&bytes[..])))?
        .map_err(|e| Fail::new("vcp:wellformed-rejected", format!("frame decode failed: {:?}", e)))?;
    ensure_eq!(decoded.len(), 1, "vcp:frame-message-count");
    match decoded[0].contents() {
        MessageContents::VolumeCoveragePattern(m) => {
            check_vcp_message(&c.vcp, m)?;
            ensure!(**m == direct, "vcp:frame-vs-direct-differ", "frame path and direct path decode differently");
        }
        other => return Err(Fail::new("vcp:frame-wrong-contents", format!("type 5 frame decoded as {:?}", std::mem::discriminant(other)))),
    }
    // frame path from a reader positioned inside a larger source (after a 24-byte volume header or an earlier frame)
    {
        let lead = if c.filler.len() % 2 == 0 { 24 } else { bytes.len() };
        let mut shifted = vec![0x3Cu8; lead];
        shifted.extend_from_slice(&bytes);
        let mut cur = Cursor::new(&shifted[..]);
        cur.set_position(lead as u64);
        let again = no_panic("decode_messages", || decode_messages(&mut cur))?
            .map_err(|e| Fail::new("vcp:wellformed-rejected-at-offset", format!("reader positioned {} bytes into its source: {:?}", lead, e)))?;
        ensure!(again == decoded, "vcp:frame-depends-on-reader-position", "decode_messages from a reader positioned {} bytes into its source returns a different message list ({} messages instead of 1)", lead, again.len());
    }
    Ok(())
}

#[derive(Clone, Debug, Serialize, Deserialize)]
pub struct OversizeCase {
    pub declared: u16,
    pub seed: u64,
}

/// A declared cut count that does not fit the frame is an error.
pub fn check_oversize(c: &OversizeCase) -> Check {
    ensure!(c.declared > 51, "replay-format", "declared count fits");
    let mut body = vec![0u8; FRAME_BODY_LEN];
    let mut x = c.seed | 1;
    for b in body.iter_mut() {
        x ^= x << 13;
        x ^= x >> 7;
        x ^= x << 17;
        *b = (x >> 32) as u8;
    }
    crate::wire::put16(&mut body, 6, c.declared);
    let hdr = MsgHeaderSpec { rpg: [0; 12], size: 1208, channel: 8, mtype: 5, seq: 1, date: 20_000, time: 1, seg_count: 1, seg_num: 1 };
    let mut bytes = hdr.encode().to_vec();
    bytes.extend_from_slice(&body);
    let r = no_panic("decode_messages", || decode_messages(&mut Cursor::new(&bytes[..])))?;
    ensure!(r.is_err(), "vcp:oversize-count-accepted", "declared {} cuts in a 2404-byte frame decoded without error ({} messages)", c.declared, r.as_ref().map(|v| v.len()).unwrap_or(0));
    let r = no_panic("decode_volume_coverage_pattern", || vcp::decode_volume_coverage_pattern(&mut &body[..]))?;
    ensure!(r.is_err(), "vcp:oversize-count-accepted", "declared {} cuts decoded from a 2404-byte body without error", c.declared);
    // the frame boundary must hold inside a longer stream too: the same frame preceded by one valid frame and
    // followed by enough valid frames to cover every byte the declared cut list would need
    if c.declared <= 2000 || c.declared % 31 == 21 {
        let needed = 22 + 46 * c.declared as usize - FRAME_BODY_LEN;
        let followers = needed / (MSG_HEADER_LEN + FRAME_BODY_LEN) + 2;
        let filler = MsgSpec { header: MsgHeaderSpec { mtype: 3, ..hdr.clone() }, body: BodySpec::Opaque(vec![(c.seed >> 8) as u8, c.seed as u8, 7]) }.encode();
        let mut stream = filler.clone();
        stream.extend_from_slice(&bytes);
        for _ in 0..followers {
            stream.extend_from_slice(&filler);
        }
        let r = no_panic("decode_messages", || decode_messages(&mut Cursor::new(&stream[..])))?;
        ensure!(
            r.is_err(),
            "vcp:oversize-count-accepted-inside-stream",
            "declared {} cuts in a 2404-byte frame followed by {} further frames decoded without error ({} messages): the cut list was read across the frame boundary",
            c.declared, followers, r.as_ref().map(|v| v.len()).unwrap_or(0)
        );
    }
    Ok(())
}

// ---------------------------------------------------------------------------------------------
// Accessor tables (exhaustive over the raw domain)
// ---------------------------------------------------------------------------------------------

fn zero_cut() -> CutSpec {
    CutSpec {
        elevation_angle: 0, channel: 0, waveform: 0, super_res: 0, surv_prf: 0, surv_count: 0, azimuth_rate: 0,
        ref_thr: 0, vel_thr: 0, sw_thr: 0, zdr_thr: 0, phi_thr: 0, rho_thr: 0, s1_edge: 0, s1_prf: 0, s1_count: 0,
        supplemental: 0, s2_edge: 0, s2_prf: 0, s2_count: 0, ebc: 0, s3_edge: 0, s3_prf: 0, s3_count: 0, reserved: 0,
    }
}

fn header_with(seq: u16, supp: u16, ptype: u16, dop: u8, pw: u8) -> vcp::Header {
    // every field that is not under test carries a value derived from the others (never a constant zero), so
    // that an accessor that consults a neighbouring field is exposed
    let mix = seq.rotate_left(3) ^ supp.rotate_left(7) ^ ptype.rotate_left(11) ^ ((dop as u16) << 8 | pw as u16) ^ 0x5A5A;
    vcp::Header {
        message_size: !mix, pattern_type: ptype, pattern_number: mix.rotate_left(5), number_of_elevation_cuts: (mix % 52).max(1), version: (mix >> 3) as u8 | 1,
        clutter_map_group_number: (mix >> 7) as u8 | 1, doppler_velocity_resolution: dop, pulse_width: pw, reserved_1: 0xDEAD_0000 | mix as u32,
        vcp_sequencing: seq, vcp_supplemental_data: supp, reserved_2: mix | 1,
    }
}

fn bits(raw: u16, lo: u32, hi: u32) -> u16 {
    (raw >> lo) & ((1u16 << (hi - lo + 1)) - 1)
}

/// All 16-bit accessors evaluated on one raw value (noise = other fields filled with the complement
/// so that an accessor reading a neighbouring field is exposed).
pub fn check_raw16(raw: u16) -> Check {
    let noise = !raw;
    let mut c = zero_cut();
    // every u16 field gets noise, then the field under test gets raw
    let fill = |c: &mut CutSpec, v: u16| {
        c.elevation_angle = v; c.azimuth_rate = v; c.s1_edge = v; c.s2_edge = v; c.s3_edge = v; c.ebc = v; c.supplemental = v;
        c.ref_thr = v as i16; c.vel_thr = v as i16; c.sw_thr = v as i16; c.zdr_thr = v as i16; c.phi_thr = v as i16; c.rho_thr = v as i16;
        c.surv_count = v; c.s1_prf = v; c.s1_count = v; c.s2_prf = v; c.s2_count = v; c.s3_prf = v; c.s3_count = v; c.reserved = v;
    };
    let want_angle = icd_angle(raw);
    let tol = 1e-12;

    macro_rules! angle {
        ($field:ident, $plain:ident, $uom:ident) => {{
            fill(&mut c, noise);
            c.$field = raw;
            let e = cut_block(&c);
            let got = no_panic(stringify!($plain), || e.$plain())?;
            ensure!(rel_close(got, want_angle, tol), concat!("angle:", stringify!($plain)), "raw {:#06x}: got {} want {}", raw, got, want_angle);
            let got_u = no_panic(stringify!($uom), || e.$uom().get::<degree>())?;
            ensure!(rel_close(got_u, want_angle, 1e-9), concat!("angle-uom:", stringify!($uom)), "raw {:#06x}: got {} want {}", raw, got_u, want_angle);
        }};
    }
    angle!(elevation_angle, elevation_angle_degrees, elevation_angle);
    angle!(s1_edge, sector_1_edge_angle_degrees, sector_1_edge_angle);
    angle!(s2_edge, sector_2_edge_angle_degrees, sector_2_edge_angle);
    angle!(s3_edge, sector_3_edge_angle_degrees, sector_3_edge_angle);
    angle!(ebc, ebc_angle_degrees, ebc_angle);

    {
        fill(&mut c, noise);
        c.azimuth_rate = raw;
        let e = cut_block(&c);
        let want = icd_rate(raw);
        let got = no_panic("azimuth_rate_degrees_per_second", || e.azimuth_rate_degrees_per_second())?;
        ensure!(rel_close(got, want, tol), "rate:azimuth_rate_degrees_per_second", "raw {:#06x}: got {} want {}", raw, got, want);
        let got_u = no_panic("azimuth_rate", || e.azimuth_rate().get::<degree_per_second>())?;
        ensure!(rel_close(got_u, want, 1e-9), "rate-uom:azimuth_rate", "raw {:#06x}: got {} want {}", raw, got_u, want);
    }

    macro_rules! threshold {
        ($field:ident, $acc:ident) => {{
            fill(&mut c, noise);
            c.$field = raw as i16;
            let e = cut_block(&c);
            let want = (raw as i16) as f64 / 8.0;
            let got = no_panic(stringify!($acc), || e.$acc())?;
            ensure!(rel_close(got, want, tol), concat!("threshold:", stringify!($acc)), "raw {:#06x}: got {} want {}", raw, got, want);
        }};
    }
    threshold!(ref_thr, reflectivity_threshold);
    threshold!(vel_thr, velocity_threshold);
    threshold!(sw_thr, spectrum_width_threshold);
    threshold!(zdr_thr, differential_reflectivity_threshold);
    threshold!(phi_thr, differential_phase_threshold);
    threshold!(rho_thr, correlation_coefficient_threshold);

    {
        fill(&mut c, noise);
        c.supplemental = raw;
        let e = cut_block(&c);
        ensure_eq!(e.supplemental_data_sails_cut(), bits(raw, 0, 0) == 1, "bits:cut.sails_cut[0]", "raw {:#06x}", raw);
        ensure_eq!(e.supplemental_data_sails_sequence_number() as u16, bits(raw, 1, 3), "bits:cut.sails_sequence[1-3]", "raw {:#06x}", raw);
        ensure_eq!(e.supplemental_data_mrle_cut(), bits(raw, 4, 4) == 1, "bits:cut.mrle_cut[4]", "raw {:#06x}", raw);
        ensure_eq!(e.supplemental_data_mrle_sequence_number() as u16, bits(raw, 5, 7), "bits:cut.mrle_sequence[5-7]", "raw {:#06x}", raw);
        ensure_eq!(e.supplemental_data_mpda_cut(), bits(raw, 9, 9) == 1, "bits:cut.mpda_cut[9]", "raw {:#06x}", raw);
        ensure_eq!(e.supplemental_data_base_tilt_cut(), bits(raw, 10, 10) == 1, "bits:cut.base_tilt_cut[10]", "raw {:#06x}", raw);
    }
    {
        let h = header_with(raw, noise, noise, 0, 0);
        ensure_eq!(h.vcp_sequencing_number_of_elevations() as u16, bits(raw, 0, 4), "bits:seq.number_of_elevations[0-4]", "raw {:#06x}", raw);
        ensure_eq!(h.vcp_sequencing_maximum_sails_cuts() as u16, bits(raw, 5, 6), "bits:seq.maximum_sails_cuts[5-6]", "raw {:#06x}", raw);
        ensure_eq!(h.vcp_sequencing_sequence_active(), bits(raw, 13, 13) == 1, "bits:seq.sequence_active[13]", "raw {:#06x}", raw);
        ensure_eq!(h.vcp_sequencing_truncated_vcp(), bits(raw, 14, 14) == 1, "bits:seq.truncated_vcp[14]", "raw {:#06x}", raw);
        let h = header_with(noise, raw, noise, 0, 0);
        ensure_eq!(h.vcp_supplemental_data_sails_vcp(), bits(raw, 0, 0) == 1, "bits:supp.sails_vcp[0]", "raw {:#06x}", raw);
        ensure_eq!(h.vcp_supplemental_data_number_sails_cuts() as u16, bits(raw, 1, 3), "bits:supp.number_sails_cuts[1-3]", "raw {:#06x}", raw);
        ensure_eq!(h.vcp_supplemental_data_mrle_vcp(), bits(raw, 4, 4) == 1, "bits:supp.mrle_vcp[4]", "raw {:#06x}", raw);
        ensure_eq!(h.vcp_supplemental_data_number_mrle_cuts() as u16, bits(raw, 5, 7), "bits:supp.number_mrle_cuts[5-7]", "raw {:#06x}", raw);
        ensure_eq!(h.vcp_supplemental_data_mpda_vcp(), bits(raw, 11, 11) == 1, "bits:supp.mpda_vcp[11]", "raw {:#06x}", raw);
        ensure_eq!(h.vcp_supplemental_data_base_tilt_vcp(), bits(raw, 12, 12) == 1, "bits:supp.base_tilt_vcp[12]", "raw {:#06x}", raw);
        ensure_eq!(h.vcp_supplemental_data_base_tilts() as u16, bits(raw, 13, 15), "bits:supp.base_tilts[13-15]", "raw {:#06x}", raw);
        let h = header_with(noise, noise, raw, 0, 0);
        let pt = no_panic("pattern_type", || h.pattern_type())?;
        ensure_eq!(pt == vcp::PatternType::Constant, raw == 2, "code:pattern_type", "raw {:#06x}", raw);
        ensure_eq!(format!("{:?}", pt) == "Constant", raw == 2, "code:pattern_type", "raw {:#06x} (variant compared by its Debug rendering)", raw);
    }
    Ok(())
}

/// All byte-wide accessors evaluated on one raw value.
pub fn check_raw8(raw: u8) -> Check {
    let noise = !raw;
    let mut c = zero_cut();
    c.channel = raw;
    c.waveform = noise;
    c.super_res = noise;
    c.surv_prf = noise;
    let e = cut_block(&c);
    let want = match raw {
        0 => vcp::ChannelConfiguration::ConstantPhase,
        1 => vcp::ChannelConfiguration::RandomPhase,
        2 => vcp::ChannelConfiguration::SZ2Phase,
        _ => vcp::ChannelConfiguration::UnknownPhase,
    };
    crate::ensure_same!(no_panic("channel_configuration", || e.channel_configuration())?, want, "code:channel_configuration", "raw {}", raw);

    let mut c = zero_cut();
    c.channel = noise;
    c.waveform = raw;
    c.super_res = noise;
    c.surv_prf = noise;
    let e = cut_block(&c);
    let want = match raw {
        1 => vcp::WaveformType::CS,
        2 => vcp::WaveformType::CDW,
        3 => vcp::WaveformType::CDWO,
        4 => vcp::WaveformType::B,
        5 => vcp::WaveformType::SPP,
        _ => vcp::WaveformType::Unknown,
    };
    crate::ensure_same!(no_panic("waveform_type", || e.waveform_type())?, want, "code:waveform_type", "raw {}", raw);

    let mut c = zero_cut();
    c.channel = noise;
    c.waveform = noise;
    c.super_res = raw;
    c.surv_prf = noise;
    let e = cut_block(&c);
    ensure_eq!(e.super_resolution_control_half_degree_azimuth(), raw & 1 != 0, "bits:superres.half_degree_azimuth[0]", "raw {:#04x}", raw);
    ensure_eq!(e.super_resolution_control_quarter_km_reflectivity(), raw & 2 != 0, "bits:superres.quarter_km_reflectivity[1]", "raw {:#04x}", raw);
    ensure_eq!(e.super_resolution_control_doppler_to_300km(), raw & 4 != 0, "bits:superres.doppler_to_300km[2]", "raw {:#04x}", raw);
    ensure_eq!(e.super_resolution_control_dual_polarization_to_300km(), raw & 8 != 0, "bits:superres.dual_polarization_to_300km[3]", "raw {:#04x}", raw);

    let h = header_with(0, 0, 2, raw, noise);
    let want = match raw {
        2 => Some(0.5),
        4 => Some(1.0),
        _ => None,
    };
    ensure_eq!(h.doppler_velocity_resolution_meters_per_second(), want, "code:doppler_velocity_resolution", "raw {}", raw);
    let got_u = h.doppler_velocity_resolution().map(|v| v.get::<meter_per_second>());
    ensure!(
        match (got_u, want) {
            (Some(a), Some(b)) => rel_close(a, b, 1e-9),
            (None, None) => true,
            _ => false,
        },
        "code:doppler_velocity_resolution-uom",
        "raw {}: {:?} vs {:?}", raw, got_u, want
    );
    let h = header_with(0, 0, 2, noise, raw);
    let want = match raw {
        2 => vcp::PulseWidth::Short,
        4 => vcp::PulseWidth::Long,
        _ => vcp::PulseWidth::Unknown,
    };
    crate::ensure_same!(h.pulse_width(), want, "code:pulse_width", "raw {}", raw);
    Ok(())
}

pub fn run(ctx: &Ctx, rep: &mut Report) {
    rep.trust("independent wire encoder: 11-halfword VCP header offsets and 23-halfword cut block offsets");
    rep.trust("closed forms (raw>>3)*180/4096, ((raw>>3)&0xFFF)*22.5/2048 negated on bit 15, raw/8; bit ranges as documented on the struct fields");
    rep.assume("uom accessors are compared with 1e-9 relative tolerance (degree<->radian conversion), plain accessors with 1e-12");

    // exhaustive accessor tables
    {
        let threads = ctx.threads.max(1);
        let fails: Vec<Vec<(Fail, u16)>> = std::thread::scope(|scope| {
            let hs: Vec<_> = (0..threads)
                .map(|w| {
                    scope.spawn(move || {
                        let mut fails: Vec<(Fail, u16)> = Vec::new();
                        let mut raw = w as u32;
                        while raw <= 0xFFFF {
                            let r = crate::runner::guard(|| check_raw16(raw as u16)).unwrap_or_else(|p| Err(Fail::new("panic:oracle-or-code", p)));
                            if let Err(f) = r {
                                if fails.iter().all(|(g, _)| g.sig != f.sig) {
                                    fails.push((f, raw as u16));
                                }
                            }
                            raw += threads as u32;
                        }
                        fails
                    })
                })
                .collect();
            hs.into_iter().map(|h| h.join().expect("worker")).collect()
        });
        for fs in fails {
            for (f, raw) in fs {
                rep.record_failure("accessors-raw16", f, json!({"raw": raw}));
            }
        }
        // 36 accessor evaluations per raw value
        rep.enumerated(
            "accessors-raw16",
            "all 65536 raw values for each of the 16-bit accessors (5 angles x plain+uom, rate x2, 6 thresholds, 6 cut sub-fields, 11 header sub-fields, pattern type), neighbouring fields filled with the complement; non-trivial = raw with bit 15 set or any of the low 3 bits set",
            65_536 * 36,
            (65_536 - 4096) as u64 * 36,
            true,
        );
        rep.sample("accessors-raw16", json!({"raw": 0x8FF7u16}));
        for raw in 0..=255u8 {
            let r = crate::runner::guard(|| check_raw8(raw)).unwrap_or_else(|p| Err(Fail::new("panic:oracle-or-code", p)));
            if let Err(f) = r {
                rep.record_failure("accessors-raw8", f, json!({"raw": raw}));
            }
        }
        rep.enumerated("accessors-raw8", "all 256 raw values for the byte-wide codes (channel, waveform, super-resolution bits, Doppler resolution, pulse width)", 256 * 10, 256 * 10, true);
        rep.sample("accessors-raw8", json!({"raw": 5}));
    }

    // layout: every k in 0..=51 in every run (fixed), plus proptest over k and values
    {
        for k in 0..=51usize {
            let strat = (gen::vcp(Just(k).boxed()), gen::filler(), gen::msg_header(5, None));
            let (v, filler, header) = crate::runner::draw(&strat, ctx.seed, "c11-every-k", k);
            let c = LayoutCase { vcp: v, filler, header };
            let r = crate::runner::guard(|| check_layout(&c)).unwrap_or_else(|p| Err(Fail::new("panic:oracle-or-code", p)));
            if let Err(f) = r {
                rep.record_failure("layout-every-cut-count", f, json!(c));
            }
        }
        rep.enumerated("layout-every-cut-count", "one seeded message for every cut count 0..=51, through the direct decoder and the frame path; non-trivial = >= 2 cuts", 52, 50, true);
        rep.sample("layout-every-cut-count", json!({"cuts": 51}));
    }
    rep.prop(
        "layout",
        "proptest: VCP messages with k in 0..=51 cuts, every header and cut field an arbitrary value of its wire type, decoded directly and inside a 2432-byte frame; non-trivial = k >= 2",
        ctx.tier.pick(1_000_000, 15_000_000),
        || (gen::vcp(gen::vcp_cut_count()), gen::filler(), gen::msg_header(5, None)).prop_map(|(vcp, filler, header)| LayoutCase { vcp, filler, header }),
        |c| CaseInfo::new(c.vcp.cuts.len() >= 2).class(c.vcp.cuts.is_empty(), "zero-cuts").class(c.vcp.cuts.len() == 51, "full-frame"),
        check_layout,
    );
    rep.require_class("layout", "full-frame", 5);

    // oversize declared counts
    {
        let all = ctx.tier == crate::runner::Tier::Thorough;
        let mut n = 0u64;
        let mut declared = 52u32;
        let step = if all { 1 } else { 31 };
        while declared <= 65_535 {
            let c = OversizeCase { declared: declared as u16, seed: hash_bytes(format!("{}|oversize|{}", ctx.seed, declared).as_bytes()) };
            n += 1;
            let r = crate::runner::guard(|| check_oversize(&c)).unwrap_or_else(|p| Err(Fail::new("panic:oracle-or-code", p)));
            if let Err(f) = r {
                rep.record_failure("oversize-cut-count", f, json!(c));
            }
            declared += step;
        }
        for d in [52u16, 53, 65_535] {
            let c = OversizeCase { declared: d, seed: 1 };
            n += 1;
            let r = crate::runner::guard(|| check_oversize(&c)).unwrap_or_else(|p| Err(Fail::new("panic:oracle-or-code", p)));
            if let Err(f) = r {
                rep.record_failure("oversize-cut-count", f, json!(c));
            }
        }
        rep.enumerated(
            "oversize-cut-count",
            "declared cut counts 52..=65535 (every value in the thorough tier, every 31st in the quick tier) over a full frame of seeded random bytes: must be an error on both entry points",
            n,
            n,
            all,
        );
        rep.sample("oversize-cut-count", json!({"declared": 52}));
    }
}

pub fn replay(sub: &str, case: &Value) -> Check {
    match sub {
        "accessors-raw16" => check_raw16(case.get("raw").and_then(|v| v.as_u64()).unwrap_or(0) as u16),
        "accessors-raw8" => check_raw8(case.get("raw").and_then(|v| v.as_u64()).unwrap_or(0) as u8),
        "layout" | "layout-every-cut-count" => check_layout(&from_case::<LayoutCase>(case)?),
        "oversize-cut-count" => check_oversize(&from_case::<OversizeCase>(case)?),
        other => super::unknown_sub(other),
    }
}
