//! C19  Chunk-to-elevation mapping and next-chunk time estimates follow the VCP.

use crate::runner::{from_case, no_panic, CaseInfo, Check, Ctx, Fail, Report};
use crate::wire::CutSpec;
use crate::{ensure, ensure_eq};
use chrono::{DateTime, Duration, Utc};
use nexrad_data::aws::realtime::{
    estimate_next_chunk_time, get_elevation_from_chunk, ChunkCharacteristics, ChunkIdentifier, ChunkTimingStats, ChunkType, VolumeIndex,
};
use nexrad_decode::messages::volume_coverage_pattern as vcp;
use proptest::collection::vec;
use proptest::prelude::*;
use serde::{Deserialize, Serialize};
use serde_json::{json, Value};
use std::collections::{BTreeMap, VecDeque};

/// Builds the decode-crate cut block from public fields (no decoder involved).
pub fn cut_block(c: &CutSpec) -> vcp::ElevationDataBlock {
    vcp::ElevationDataBlock {
        elevation_angle: c.elevation_angle,
        channel_configuration: c.channel,
        waveform_type: c.waveform,
        super_resolution_control: c.super_res,
        surveillance_prf_number: c.surv_prf,
        surveillance_prf_pulse_count_radial: c.surv_count,
        azimuth_rate: c.azimuth_rate,
        reflectivity_threshold: c.ref_thr,
        velocity_threshold: c.vel_thr,
        spectrum_width_threshold: c.sw_thr,
        differential_reflectivity_threshold: c.zdr_thr,
        differential_phase_threshold: c.phi_thr,
        correlation_coefficient_threshold: c.rho_thr,
        sector_1_edge_angle: c.s1_edge,
        sector_1_doppler_prf_number: c.s1_prf,
        sector_1_doppler_prf_pulse_count_radial: c.s1_count,
        supplemental_data: c.supplemental,
        sector_2_edge_angle: c.s2_edge,
        sector_2_doppler_prf_number: c.s2_prf,
        sector_2_doppler_prf_pulse_count_radial: c.s2_count,
        ebc_angle: c.ebc,
        sector_3_edge_angle: c.s3_edge,
        sector_3_doppler_prf_number: c.s3_prf,
        sector_3_doppler_prf_pulse_count_radial: c.s3_count,
        reserved: c.reserved,
    }
}

fn blank_cut(super_res: u8, waveform: u8, channel: u8, tag: u16) -> CutSpec {
    CutSpec {
        elevation_angle: tag,
        channel,
        waveform,
        super_res,
        surv_prf: 0,
        surv_count: 0,
        azimuth_rate: 0,
        ref_thr: 0,
        vel_thr: 0,
        sw_thr: 0,
        zdr_thr: 0,
        phi_thr: 0,
        rho_thr: 0,
        s1_edge: 0,
        s1_prf: 0,
        s1_count: 0,
        supplemental: 0,
        s2_edge: 0,
        s2_prf: 0,
        s2_count: 0,
        ebc: 0,
        s3_edge: 0,
        s3_prf: 0,
        s3_count: 0,
        reserved: tag,
    }
}

pub fn vcp_message(cuts: &[(u8, u8, u8)]) -> vcp::Message {
    // The message value is obtained from the decoder (an all-zero message of the right length always decodes) and then
    // every public field is overwritten from generated values, so the content does not depend on the decoder while the
    // construction keeps working if the struct grows private bookkeeping fields.
    let bytes = vec![0u8; 22];
    let mut msg = nexrad_decode::messages::volume_coverage_pattern::decode_volume_coverage_pattern(&mut &bytes[..]).expect("an all-zero VCP header with zero cuts decodes");
    msg.header = vcp::Header {
        message_size: (11 + 23 * cuts.len()) as u16,
        pattern_type: 2,
        pattern_number: 212,
        number_of_elevation_cuts: cuts.len() as u16,
        version: 1,
        clutter_map_group_number: 0,
        doppler_velocity_resolution: 2,
        pulse_width: 2,
        reserved_1: 0,
        vcp_sequencing: 0,
        vcp_supplemental_data: 0,
        reserved_2: 0,
    };
    msg.elevations = cuts.iter().enumerate().map(|(i, (sr, wf, ch))| cut_block(&blank_cut(*sr, *wf, *ch, i as u16))).collect();
    msg
}

/// Reference mapping: chunk 1 -> none; a half-degree cut (bit 0 of the super-resolution byte) spans
/// six chunks and any other cut three; beyond the last cut -> none.
pub fn model_cut_index(cuts: &[(u8, u8, u8)], sequence: usize) -> Option<usize> {
    if sequence <= 1 {
        return None;
    }
    let mut first = 2usize;
    for (i, (sr, _, _)) in cuts.iter().enumerate() {
        let span = if sr & 1 == 1 { 6 } else { 3 };
        if sequence >= first && sequence < first + span {
            return Some(i);
        }
        first += span;
    }
    None
}

#[derive(Clone, Debug, Serialize, Deserialize)]
pub struct MapCase {
    /// (super-resolution byte, waveform code, channel code) per cut
    pub cuts: Vec<(u8, u8, u8)>,
}

pub fn check_mapping(c: &MapCase) -> Check {
    let msg = vcp_message(&c.cuts);
    let mut last: Option<usize> = None;
    for seq in 1..=200usize {
        let got = no_panic("get_elevation_from_chunk", || {
            get_elevation_from_chunk(seq, &msg.elevations).map(|e| {
                msg.elevations
                    .iter()
                    .position(|x| std::ptr::eq(x, e))
                    .unwrap_or(usize::MAX)
            })
        })?;
        let want = model_cut_index(&c.cuts, seq);
        ensure_eq!(got, want, "mapping:cut-index", "sequence {} over {} cuts", seq, c.cuts.len());
        if let (Some(l), Some(g)) = (last, got) {
            ensure!(g >= l, "mapping:not-monotone", "sequence {} maps to cut {} after cut {}", seq, g, l);
        }
        if got.is_some() {
            last = got;
        }
    }
    Ok(())
}

#[derive(Clone, Debug, Serialize, Deserialize, PartialEq)]
pub enum PrevSeq {
    Num(usize),
    Text(String),
    Missing,
}

#[derive(Clone, Debug, Serialize, Deserialize)]
pub struct HistEntry {
    /// 0 = the key of the queried (next) chunk, otherwise an explicit key below
    pub same_key: bool,
    pub chunk_type: u8, // 0 start, 1 intermediate, 2 end
    pub waveform: u8,
    pub channel: u8,
    pub duration_ms: u32,
    pub attempts: u8,
}

#[derive(Clone, Debug, Serialize, Deserialize)]
pub struct EstCase {
    pub cuts: Vec<(u8, u8, u8)>,
    pub prev: PrevSeq,
    pub upload_ms: Option<i64>,
    /// sub-millisecond part of the upload time in nanoseconds (0..1_000_000): S3 object times have whole-second
    /// resolution, but the identifier accepts any DateTime and "upload time plus wait" is exact for all of them
    #[serde(default)]
    pub upload_sub_ms_ns: u32,
    pub with_stats: bool,
    pub history: Vec<HistEntry>,
}

fn waveform_of(code: u8) -> vcp::WaveformType {
    match code {
        1 => vcp::WaveformType::CS,
        2 => vcp::WaveformType::CDW,
        3 => vcp::WaveformType::CDWO,
        4 => vcp::WaveformType::B,
        5 => vcp::WaveformType::SPP,
        _ => vcp::WaveformType::Unknown,
    }
}
fn channel_of(code: u8) -> vcp::ChannelConfiguration {
    match code {
        0 => vcp::ChannelConfiguration::ConstantPhase,
        1 => vcp::ChannelConfiguration::RandomPhase,
        2 => vcp::ChannelConfiguration::SZ2Phase,
        _ => vcp::ChannelConfiguration::UnknownPhase,
    }
}
fn chunk_type_of(code: u8) -> ChunkType {
    match code {
        0 => ChunkType::Start,
        1 => ChunkType::Intermediate,
        _ => ChunkType::End,
    }
}
/// Canonical key: (type code, waveform class, channel class) with out-of-table codes collapsed.
fn canon(t: u8, w: u8, c: u8) -> (u8, u8, u8) {
    (t.min(2), if (1..=5).contains(&w) { w } else { 0 }, if c <= 2 { c } else { 3 })
}

pub fn check_estimate(c: &EstCase) -> Check {
    let msg = vcp_message(&c.cuts);
    let name = match &c.prev {
        PrevSeq::Num(n) => format!("20240804-101007-{:03}-{}", n, match n { 1 => "S", 55 => "E", _ => "I" }),
        PrevSeq::Text(t) => format!("20240804-101007-{}-I", t),
        PrevSeq::Missing => "20240804-101007".to_string(),
    };
    let upload = c.upload_ms.and_then(DateTime::<Utc>::from_timestamp_millis).map(|t| t + Duration::nanoseconds((c.upload_sub_ms_ns % 1_000_000) as i64));
    let prev = ChunkIdentifier::new("KDMX".into(), VolumeIndex::new(42), name, upload);

    // model of what the estimate must be
    let seq = match &c.prev {
        PrevSeq::Num(n) => Some(*n),
        _ => None,
    };
    let next_cut = seq.filter(|s| (1..55).contains(s)).and_then(|s| model_cut_index(&c.cuts, s + 1));
    let queried_key = next_cut.map(|i| {
        let (_, w, ch) = c.cuts[i];
        let t = if seq.map(|s| s + 1) == Some(55) { 2 } else { 1 };
        canon(t, w, ch)
    });

    // build the stats and the rolling-window model
    // both public ways to obtain an empty statistics object must behave alike
    let mut stats = if c.history.len() % 2 == 0 { ChunkTimingStats::new() } else { ChunkTimingStats::default() };
    let mut model: BTreeMap<(u8, u8, u8), VecDeque<(i64, usize)>> = BTreeMap::new();
    let clone_at = if c.history.len() % 3 == 1 { c.history.len() / 3 } else { usize::MAX };
    let mut recorded = 0usize;
    for h in &c.history {
        let (t, w, ch) = if h.same_key {
            match queried_key {
                Some(k) => k,
                None => canon(h.chunk_type, h.waveform, h.channel),
            }
        } else {
            canon(h.chunk_type, h.waveform, h.channel)
        };
        let key = ChunkCharacteristics {
            chunk_type: chunk_type_of(t),
            waveform_type: waveform_of(w),
            channel_configuration: channel_of(ch),
        };
        no_panic("add_timing", || stats.add_timing(key, Duration::milliseconds(h.duration_ms as i64), h.attempts as usize))?;
        // a history may span a clone: the copy continues where the original stood (at one third of the history)
        if recorded == clone_at {
            stats = no_panic("ChunkTimingStats::clone", || stats.clone())?;
        }
        recorded += 1;
        let q = model.entry((t, w, ch)).or_default();
        q.push_back((h.duration_ms as i64, h.attempts as usize));
        if q.len() > 10 {
            q.pop_front();
        }
    }

    // get_statistics() = per-key mean of the last ten samples
    let reported = no_panic("get_statistics", || stats.get_statistics())?;
    ensure_eq!(reported.len(), model.len(), "stats:key-count");
    for (key, dur, att) in &reported {
        let t = match key.chunk_type {
            ChunkType::Start => 0,
            ChunkType::Intermediate => 1,
            ChunkType::End => 2,
        };
        let w = (0..=5u8).find(|w| waveform_of(*w) == key.waveform_type).unwrap_or(0);
        let ch = (0..=3u8).find(|x| channel_of(*x) == key.channel_configuration).unwrap_or(3);
        let q = model
            .get(&(t, w, ch))
            .ok_or_else(|| Fail::new("stats:unknown-key", format!("statistics report a key never recorded: {:?}", key)))?;
        let mean_ms = q.iter().map(|x| x.0).sum::<i64>() as f64 / q.len() as f64;
        let mean_att = q.iter().map(|x| x.1).sum::<usize>() as f64 / q.len() as f64;
        let d = dur.ok_or_else(|| Fail::new("stats:missing-mean", "no mean duration for a recorded key"))?;
        ensure!(
            (d.num_milliseconds() as f64 - mean_ms).abs() <= 1.0,
            "stats:window-mean-duration",
            "key {:?}: reported {} ms, mean of the last {} samples is {:.2} ms",
            key, d.num_milliseconds(), q.len(), mean_ms
        );
        let a = att.ok_or_else(|| Fail::new("stats:missing-mean", "no mean attempts for a recorded key"))?;
        ensure!((a - mean_att).abs() <= 1e-9, "stats:window-mean-attempts", "reported {} want {}", a, mean_att);
    }

    let before = Utc::now();
    let stats_arg = if c.with_stats { Some(&stats) } else { None };
    let got = no_panic("estimate_next_chunk_time", || estimate_next_chunk_time(&prev, &msg, stats_arg))?;

    // metamorphic relation: a mean does not depend on the order of the samples.  Statistics holding, for every key, the
    // same last-ten samples in ascending and in descending order must lead to the same estimate (when the estimate is
    // anchored to the upload time; without one it is anchored to the wall clock and differs from call to call).
    if c.with_stats && upload.is_some() {
        for descending in [false, true] {
            let mut permuted = if descending { ChunkTimingStats::default() } else { ChunkTimingStats::new() };
            for ((t, w, ch), q) in &model {
                let key = ChunkCharacteristics { chunk_type: chunk_type_of(*t), waveform_type: waveform_of(*w), channel_configuration: channel_of(*ch) };
                let mut window: Vec<(i64, usize)> = q.iter().copied().collect();
                window.sort_by_key(|x| (x.1, x.0));
                if descending {
                    window.reverse();
                }
                for (d, a) in window {
                    no_panic("add_timing", || permuted.add_timing(key, Duration::milliseconds(d), a))?;
                }
            }
            let again = no_panic("estimate_next_chunk_time", || estimate_next_chunk_time(&prev, &msg, Some(&permuted)))?;
            ensure_eq!(again, got, "estimate:depends-on-sample-order", "the same last-ten samples per key recorded in {} order give a different estimate", if descending { "descending" } else { "ascending" });
        }
    }

    // none-cases
    let seq = match seq {
        Some(s) if (1..=55).contains(&s) => s,
        _ => {
            ensure_eq!(got, None, "estimate:none-outside-1..=55", "previous {:?}", c.prev);
            return Ok(());
        }
    };
    let base = upload;
    let lower = base.unwrap_or(before);
    if seq == 55 {
        let g = got.ok_or_else(|| Fail::new("estimate:none-after-end-chunk", "estimate after sequence 55 is None"))?;
        match base {
            Some(b) => ensure_eq!(g, b + Duration::seconds(10), "estimate:end-chunk-plus-10s"),
            None => ensure!(g >= lower + Duration::seconds(10), "estimate:end-chunk-plus-10s", "wall-clock based estimate too early"),
        }
        return Ok(());
    }
    let cut = match next_cut {
        None => {
            ensure_eq!(got, None, "estimate:none-when-next-chunk-has-no-cut", "previous sequence {} over {} cuts", seq, c.cuts.len());
            return Ok(());
        }
        Some(i) => i,
    };
    let g = got.ok_or_else(|| Fail::new("estimate:unexpected-none", format!("previous sequence {} maps next chunk to cut {}", seq, cut)))?;
    ensure!(g >= lower, "estimate:earlier-than-upload", "estimate {:?} earlier than upload/base {:?}", g, lower);
    let (_, w, ch) = c.cuts[cut];
    let key = queried_key.expect("key exists when cut exists");
    let hist = if c.with_stats { model.get(&key) } else { None };
    let (lo_ms, hi_ms): (f64, f64) = match hist {
        Some(q) if !q.is_empty() => {
            let mean_ms = q.iter().map(|x| x.0).sum::<i64>() as f64 / q.len() as f64;
            let mean_att = q.iter().map(|x| x.1).sum::<usize>() as f64 / q.len() as f64;
            let all_one = q.iter().all(|x| x.1 == 1);
            let adj_hi = if all_one { 0.0 } else { mean_att.ceil() * 1000.0 };
            (mean_ms - 1.0, mean_ms + 1.0 + adj_hi)
        }
        _ => {
            let d = if waveform_of(w) == vcp::WaveformType::CS {
                11_000.0
            } else if channel_of(ch) == vcp::ChannelConfiguration::ConstantPhase {
                7_000.0
            } else {
                4_000.0
            };
            (d, d)
        }
    };
    if let Some(b) = base {
        let delta = (g - b).num_nanoseconds().map(|n| n as f64 / 1e6).unwrap_or((g - b).num_milliseconds() as f64);
        let sig = if hist.map(|q| !q.is_empty()).unwrap_or(false) { "estimate:history-mean" } else { "estimate:static-default" };
        ensure!(
            delta >= lo_ms && delta <= hi_ms,
            sig,
            "estimate is upload + {} ms, expected within [{:.1}, {:.1}] ms (prev seq {}, cut {}, waveform {}, channel {}, key {:?}, {} samples)",
            delta, lo_ms, hi_ms, seq, cut, w, ch, key, hist.map(|q| q.len()).unwrap_or(0)
        );
    } else {
        let delta = (g - lower).num_milliseconds() as f64;
        ensure!(delta >= lo_ms, "estimate:wall-clock-base", "estimate only {} ms after the call started; expected >= {}", delta, lo_ms);
    }

    // metamorphic relation: the estimate is the upload time *plus the mean of the recorded durations*, adjusted by the
    // attempt count only. Shifting every recorded duration of the queried key by the same amount, inside the domain
    // 0..=60 s, therefore shifts the estimate by exactly that amount (the window's attempt counts are unchanged) --
    // whatever the adjustment formula is. This pins the dependence on the durations at the top of their range, where
    // mean + adjustment exceeds 60 s.
    if let (Some(_), Some(q)) = (base, hist) {
        if !q.is_empty() {
            let max = q.iter().map(|x| x.0).max().unwrap_or(0);
            let min = q.iter().map(|x| x.0).min().unwrap_or(0);
            for shift in [60_000 - max, -min] {
                if shift == 0 {
                    continue;
                }
                let mut shifted = ChunkTimingStats::new();
                for ((t, w2, ch2), qq) in &model {
                    let k = ChunkCharacteristics { chunk_type: chunk_type_of(*t), waveform_type: waveform_of(*w2), channel_configuration: channel_of(*ch2) };
                    for (d, a) in qq.iter() {
                        let d2 = if (*t, *w2, *ch2) == key { d + shift } else { *d };
                        no_panic("add_timing", || shifted.add_timing(k, Duration::milliseconds(d2), *a))?;
                    }
                }
                let again = no_panic("estimate_next_chunk_time", || estimate_next_chunk_time(&prev, &msg, Some(&shifted)))?;
                let g2 = again.ok_or_else(|| Fail::new("estimate:unexpected-none", "estimate over shifted durations is None".to_string()))?;
                let diff = (g2 - g).num_milliseconds();
                ensure!(
                    (diff - shift).abs() <= 1,
                    "estimate:not-additive-in-duration",
                    "shifting all {} recorded durations of the queried key by {} ms (window {}..={} ms, attempts {:?}) moves the estimate by {} ms",
                    q.len(), shift, min, max, q.iter().map(|x| x.1).collect::<Vec<_>>(), diff
                );
            }
        }
    }
    Ok(())
}

fn cuts_strategy() -> impl Strategy<Value = Vec<(u8, u8, u8)>> {
    let cut = || {
        (
            prop_oneof![2 => Just(0u8), 2 => Just(1u8), 1 => any::<u8>()],
            prop_oneof![4 => 1u8..=5, 1 => any::<u8>()],
            prop_oneof![4 => 0u8..=2, 1 => any::<u8>()],
        )
    };
    prop_oneof![
        1 => Just(Vec::new()),
        8 => vec(cut(), 1..=14),
        3 => vec(cut(), 15..=32),
    ]
}

fn est_strategy() -> impl Strategy<Value = EstCase> {
    let prev = prop_oneof![
        10 => (1usize..=55).prop_map(PrevSeq::Num),
        2 => Just(PrevSeq::Num(55)),
        2 => Just(PrevSeq::Num(54)),
        1 => Just(PrevSeq::Num(0)),
        1 => (56usize..=200).prop_map(PrevSeq::Num),
        1 => "[a-zA-Z]{1,3}".prop_map(PrevSeq::Text),
        1 => Just(PrevSeq::Missing),
    ];
    let hist = (
        prop_oneof![2 => Just(true), 1 => Just(false)],
        0u8..=2,
        prop_oneof![3 => 1u8..=5, 1 => Just(0u8)],
        0u8..=3,
        prop_oneof![4 => 0u32..=60_000, 1 => Just(0u32), 1 => Just(60_000u32)],
        prop_oneof![3 => Just(1u8), 2 => 1u8..=5],
    )
        .prop_map(|(same_key, chunk_type, waveform, channel, duration_ms, attempts)| HistEntry {
            same_key,
            chunk_type,
            waveform,
            channel,
            duration_ms,
            attempts,
        });
    (
        cuts_strategy(),
        prev,
        prop_oneof![8 => (1_500_000_000_000i64..1_900_000_000_000).prop_map(Some), 1 => Just(None)],
        prop_oneof![4 => Just(true), 1 => Just(false)],
        prop_oneof![
            1 => Just(Vec::new()),
            3 => vec(hist.clone(), 0..=8),
            3 => vec(hist.clone(), 9..=50),
            // windows made of one repeated duration (incl. all-zero windows) under the queried key
            1 => (vec(hist, 1..=14), prop_oneof![2 => Just(0u32), 1 => 0u32..=60_000, 1 => Just(60_000u32), 1 => 55_000u32..=60_000]).prop_map(|(mut v, d)| {
                for h in v.iter_mut() {
                    h.same_key = true;
                    h.duration_ms = d;
                }
                v
            }),
        ],
    )
        .prop_map(|(cuts, prev, upload_ms, with_stats, history)| {
            // derived from the other draws: two thirds of the upload times are whole milliseconds
            let h = upload_ms.unwrap_or(0) as u64 ^ (history.len() as u64) << 7;
            let upload_sub_ms_ns = match h % 6 {
                0 => 1,
                1 => 999_999,
                2 => (h.wrapping_mul(0x9E37_79B9_7F4A_7C15) >> 44) as u32 % 1_000_000,
                _ => 0,
            };
            EstCase { cuts, prev, upload_ms, upload_sub_ms_ns, with_stats, history }
        })
}

pub fn run(ctx: &Ctx, rep: &mut Report) {
    rep.trust("reference models: cumulative 6/3-chunk walk starting after chunk 1; per-key rolling window of the last ten samples");
    rep.assume("cut blocks and VCP messages are built from public fields: the message value comes from decoding an all-zero header, after which every public field is overwritten (the decoder has no influence on the content)");
    rep.assume("the attempt adjustment is only bounded: exactly 0 when every recorded attempt count is 1, otherwise within [0, ceil(mean attempts)] seconds (the statement does not fix the formula)");
    rep.assume("with no upload time on the previous chunk the code reads the wall clock; those cases only assert 'not earlier than the time before the call plus the expected wait'");

    // exhaustive: all resolution patterns for up to 10 cuts (2^0 + ... + 2^10 = 2047 lists) x sequences 1..=200
    {
        let mut n = 0u64;
        let mut nt = 0u64;
        for len in 0..=10usize {
            for bits in 0..(1u32 << len) {
                let cuts: Vec<(u8, u8, u8)> = (0..len).map(|i| (((bits >> i) & 1) as u8, 1 + (i % 5) as u8, (i % 3) as u8)).collect();
                let c = MapCase { cuts };
                n += 200;
                if bits != 0 && bits != (1 << len) - 1 {
                    nt += 1;
                }
                if let Err(f) = crate::runner::guard(|| check_mapping(&c)).unwrap_or_else(|p| Err(Fail::new("panic:oracle-or-code", p))) {
                    rep.record_failure("mapping-exhaustive-small", f, json!(c));
                }
            }
        }
        rep.enumerated(
            "mapping-exhaustive-small",
            "all half-degree/other resolution patterns of cut lists with 0..=10 cuts (2047 lists), each over sequences 1..=200; non-trivial = list mixes both resolutions",
            n,
            nt,
            true,
        );
        rep.sample("mapping-exhaustive-small", json!({"cuts": [[1, 1, 0], [0, 2, 1], [1, 3, 2]]}));
    }

    rep.prop(
        "mapping",
        "proptest: cut lists of 0..=32 cuts with arbitrary super-resolution bytes / waveform / channel codes, each checked over every sequence 1..=200; non-trivial = both resolutions present",
        ctx.tier.pick(400_000, 6_000_000),
        || cuts_strategy().prop_map(|cuts| MapCase { cuts }),
        |c| {
            let half = c.cuts.iter().any(|x| x.0 & 1 == 1);
            let other = c.cuts.iter().any(|x| x.0 & 1 == 0);
            CaseInfo::new(half && other)
                .class(c.cuts.is_empty(), "no-cuts")
                .class(c.cuts.iter().any(|x| x.0 > 1), "other-superres-bits-set")
                .class(c.cuts.len() > 18, "more-cuts-than-chunks")
        },
        check_mapping,
    );

    rep.prop(
        "estimate",
        "proptest: (cut list, previous chunk sequence incl. 0 / >55 / non-numeric / missing, upload time or none, history of 0..=50 add_timing samples over >= 3 keys with durations 0..=60 s and attempts 1..=5, stats passed or not); non-trivial = history holds > 10 samples for the queried key, or the previous sequence is 54/55",
        ctx.tier.pick(4_000_000, 60_000_000),
        est_strategy,
        |c| {
            let same = c.history.iter().filter(|h| h.same_key).count();
            let num = match &c.prev {
                PrevSeq::Num(n) => Some(*n),
                _ => None,
            };
            CaseInfo::new(same > 10 || matches!(num, Some(54) | Some(55)))
                .class(same > 10, "window-overflows")
                .class(c.history.is_empty(), "no-history")
                .class(c.upload_ms.is_none(), "wall-clock-base")
                .class(c.upload_ms.is_some() && c.upload_sub_ms_ns % 1_000_000 != 0, "sub-millisecond-upload-time")
                .class(!matches!(num, Some(1..=55)), "sequence-outside-domain")
                .class(num == Some(55), "after-end-chunk")
                .class(c.history.iter().any(|h| h.attempts > 1), "retries-in-history")
                .class(!c.history.is_empty() && c.history.iter().all(|h| h.duration_ms == 0), "all-zero-durations")
                .class(
                    {
                        let w: Vec<&HistEntry> = c.history.iter().filter(|h| h.same_key).collect();
                        let tail = &w[w.len().saturating_sub(10)..];
                        !tail.is_empty()
                            && tail.iter().map(|h| h.attempts as usize).sum::<usize>() >= 2 * tail.len()
                            && tail.iter().map(|h| h.duration_ms as usize).sum::<usize>() >= 59_500 * tail.len()
                    },
                    "retried-window-at-top-of-range",
                )
        },
        check_estimate,
    );
    rep.require_class("estimate", "window-overflows", 50);
    rep.require_class("estimate", "after-end-chunk", 50);
    rep.require_class("estimate", "all-zero-durations", 50);
    rep.require_class("estimate", "retried-window-at-top-of-range", 50);
    rep.require_class("estimate", "sub-millisecond-upload-time", 100);
}

pub fn replay(sub: &str, case: &Value) -> Check {
    match sub {
        "mapping" | "mapping-exhaustive-small" => check_mapping(&from_case::<MapCase>(case)?),
        "estimate" => check_estimate(&from_case::<EstCase>(case)?),
        other => super::unknown_sub(other),
    }
}
