//! C17  S3 listing and download return exactly what the bucket holds.

use crate::model::{days_from_civil, days_in_month};
use crate::props::c15::{fresh_site, runtime};
use crate::runner::{from_case, no_panic, CaseInfo, Check, Ctx, Fail, Report};
use crate::s3sim::{self, list_document, ListedObject, Request, Response, World};
use crate::{ensure, ensure_eq};
use chrono::{DateTime, NaiveDate, Utc};
use nexrad_data::aws::archive;
use nexrad_data::aws::realtime::{self, Chunk, ChunkIdentifier, VolumeIndex};
use nexrad_data::result::aws::AWSError;
use nexrad_data::result::Error as DataError;
use proptest::collection::vec;
use proptest::prelude::*;
use serde::{Deserialize, Serialize};
use serde_json::Value;
use std::sync::{Arc, Mutex};

pub const ARCHIVE_BUCKET: &str = "noaa-nexrad-level2";
pub const REALTIME_BUCKET: &str = "unidata-nexrad-level2-chunks";
const SITE_TOKEN: &str = "@@@@"; // placeholder replaced by the scenario's fresh site id

#[derive(Clone, Debug, Serialize, Deserialize)]
pub struct Stamp {
    pub secs: i64,
    /// 0, 3 or 6 fractional digits
    pub frac_digits: u8,
    pub micros: u32,
    /// "Z" or a numeric offset
    pub zulu: bool,
    /// with `zulu == false`: the numeric offset in minutes (0 = "+00:00"); the clock reading is shifted so that the
    /// instant stays the same
    #[serde(default)]
    pub offset_min: i16,
}

impl Stamp {
    pub fn text(&self) -> String {
        let dt = DateTime::<Utc>::from_timestamp(self.secs, 0).expect("valid seconds");
        let off = if self.zulu { 0 } else { (self.offset_min as i32).clamp(-14 * 60, 14 * 60) };
        let tz = chrono::FixedOffset::east_opt(off * 60).expect("valid offset");
        let base = dt.with_timezone(&tz).format("%Y-%m-%dT%H:%M:%S").to_string();
        let frac = match self.frac_digits {
            3 => format!(".{:03}", self.micros / 1000),
            6 => format!(".{:06}", self.micros),
            _ => String::new(),
        };
        let zone = if self.zulu { "Z".to_string() } else { format!("{}{:02}:{:02}", if off < 0 { '-' } else { '+' }, off.abs() / 60, off.abs() % 60) };
        format!("{}{}{}", base, frac, zone)
    }
    pub fn instant(&self) -> DateTime<Utc> {
        let nanos = match self.frac_digits {
            3 => (self.micros / 1000) * 1_000_000,
            6 => self.micros * 1000,
            _ => 0,
        };
        DateTime::<Utc>::from_timestamp(self.secs, nanos).expect("valid instant")
    }
}

#[derive(Clone, Debug, Serialize, Deserialize)]
pub enum ListFault {
    None,
    /// respond with this status and an S3-style error document (totality only)
    Status(u16),
    EmptyBody,
    Html,
    /// cut the XML document at this scaled position (totality only)
    CutXml(u16),
    InvalidUtf8,
    /// object `index`'s Size is replaced by this text: must be an error
    BadSize(u16, String),
    /// object `index` has no LastModified element
    MissingLastModified(u16),
}

#[derive(Clone, Debug, Serialize, Deserialize)]
pub struct ListCase {
    pub archive: bool,
    pub year: i32,
    pub month: u32,
    pub day: u32,
    pub volume: usize,
    /// final path segments of the objects under the requested prefix, in bucket order
    pub names: Vec<String>,
    pub stamps: Vec<Stamp>,
    pub sizes: Vec<u64>,
    /// keys under sibling prefixes (with SITE_TOKEN standing for the site)
    pub decoys_before: Vec<String>,
    pub decoys_after: Vec<String>,
    pub max_keys: usize,
    pub force_truncated: bool,
    pub pretty: bool,
    pub extras: bool,
    pub fault: ListFault,
    /// how the response is delivered: bit 0 = chunked transfer encoding, bit 1 = lower-case header names,
    /// bits 2-3 = XML spelling of the text (named entities / decimal / hexadecimal character references / references
    /// for ordinary characters too)
    #[serde(default)]
    pub delivery: u8,
}

pub struct BucketWorld {
    pub site: String,
    pub objects: Vec<ListedObject>,
    pub case: ListCase,
    pub log: Vec<Request>,
}

impl World for BucketWorld {
    fn handle(&mut self, req: &Request) -> Response {
        let mut r = self.handle_inner(req);
        r.chunked = self.case.delivery & 1 != 0;
        r.lowercase_headers = self.case.delivery & 2 != 0;
        r
    }
}

impl BucketWorld {
    fn handle_inner(&mut self, req: &Request) -> Response {
        self.log.push(req.clone());
        let prefix = req.query_value("prefix").unwrap_or("").to_string();
        let max_keys = req.query_value("max-keys").and_then(|v| v.parse::<usize>().ok());
        let selected: Vec<ListedObject> = self.objects.iter().filter(|o| o.key.starts_with(&prefix)).cloned().collect();
        let mut selected = crate::s3sim::page_after(selected, req);
        let cap = max_keys.unwrap_or(1000).min(1000);
        // max-keys=0 is a legal request: S3 answers with no keys and IsTruncated=false
        let mut truncated = cap > 0 && selected.len() > cap;
        selected.truncate(cap);
        if self.case.force_truncated {
            truncated = true;
        }
        let mut doc = crate::s3sim::list_document_styled(req.bucket(), &prefix, &selected, truncated, self.case.pretty, self.case.extras, max_keys, self.case.delivery >> 2);
        match &self.case.fault {
            ListFault::None | ListFault::BadSize(..) => Response::xml(doc),
            ListFault::MissingLastModified(idx) => {
                if !selected.is_empty() {
                    let i = (*idx as usize * selected.len()) >> 16;
                    let needle = format!("<LastModified>{}</LastModified>", s3sim::xml_escape(&selected[i].last_modified));
                    if let Some(p) = doc.find(&needle) {
                        doc.replace_range(p..p + needle.len(), "");
                    }
                }
                Response::xml(doc)
            }
            ListFault::Status(code) => Response::new(*code, b"<?xml version=\"1.0\" encoding=\"UTF-8\"?>\n<Error><Code>AccessDenied</Code><Message>Access Denied</Message><RequestId>X</RequestId></Error>".to_vec()),
            ListFault::EmptyBody => Response::new(200, Vec::new()),
            ListFault::Html => Response::new(200, b"<!DOCTYPE html><html><head><title>503</title></head><body><h1>Service Unavailable</h1><br>&nbsp;<p>x</body></html>".to_vec()),
            ListFault::CutXml(sel) => {
                let b = doc.into_bytes();
                let k = (*sel as usize * b.len()) >> 16;
                Response::new(200, b[..k].to_vec())
            }
            ListFault::InvalidUtf8 => {
                let mut b = doc.into_bytes();
                let n = b.len();
                if n > 40 {
                    b[n / 2] = 0xFF;
                    b[n / 2 + 1] = 0xFE;
                }
                Response::new(200, b)
            }
        }
    }
}

fn prefix_of(c: &ListCase, site: &str) -> String {
    if c.archive {
        format!("{:04}/{:02}/{:02}/{}", c.year, c.month, c.day, site)
    } else {
        format!("{}/{}/", site, c.volume)
    }
}

pub fn check_list(c: &ListCase) -> Check {
    ensure!(c.names.len() == c.stamps.len() && c.names.len() == c.sizes.len(), "replay-format", "names/stamps/sizes differ in length");
    let server = s3sim::global();
    let site = fresh_site();
    let prefix = prefix_of(c, &site);
    let sep = if c.archive { "/" } else { "" };
    let mut objects: Vec<ListedObject> = Vec::new();
    for d in &c.decoys_before {
        objects.push(ListedObject { key: d.replace(SITE_TOKEN, &site), last_modified: "2020-01-01T00:00:00.000Z".into(), size: "1".into() });
    }
    let bad_size_at = match &c.fault {
        ListFault::BadSize(idx, _) if !c.names.is_empty() => Some((*idx as usize * c.names.len()) >> 16),
        _ => None,
    };
    for (i, name) in c.names.iter().enumerate() {
        let size = match (&c.fault, bad_size_at) {
            (ListFault::BadSize(_, text), Some(k)) if k == i => text.clone(),
            _ => c.sizes[i].to_string(),
        };
        objects.push(ListedObject { key: format!("{}{}{}", prefix, sep, name), last_modified: c.stamps[i].text(), size });
    }
    for d in &c.decoys_after {
        objects.push(ListedObject { key: d.replace(SITE_TOKEN, &site), last_modified: "2020-01-01T00:00:00.000Z".into(), size: "1".into() });
    }
    // decoys must not fall under the requested prefix
    ensure!(objects.iter().filter(|o| o.key.starts_with(&prefix)).count() == c.names.len(), "replay-format", "a decoy key falls under the requested prefix");

    let world = Arc::new(Mutex::new(BucketWorld { site: site.clone(), objects, case: c.clone(), log: Vec::new() }));
    server.register(&site, world.clone());
    let rt = runtime();
    let date = NaiveDate::from_ymd_opt(c.year, c.month, c.day).ok_or_else(|| Fail::new("replay-format", "invalid date"))?;
    let outcome: Result<Result<Vec<(String, Option<DateTime<Utc>>)>, DataError>, Fail> = if c.archive {
        no_panic("archive::list_files", || {
            rt.block_on(archive::list_files(&site, &date)).map(|v| v.into_iter().map(|id| (id.name().to_string(), None)).collect())
        })
    } else {
        no_panic("realtime::list_chunks_in_volume", || {
            rt.block_on(realtime::list_chunks_in_volume(&site, VolumeIndex::new(c.volume), c.max_keys)).map(|v| {
                v.into_iter()
                    .map(|id| {
                        assert_eq!(id.site(), site);
                        assert_eq!(id.volume().as_number(), c.volume);
                        (id.name().to_string(), id.date_time())
                    })
                    .collect()
            })
        })
    };
    server.unregister(&site);
    let outcome = outcome?;
    let log = world.lock().unwrap_or_else(|e| e.into_inner()).log.clone();

    // the request that was issued
    ensure_eq!(log.len(), 1, "list:request-count");
    let r = &log[0];
    ensure!(r.is_list(), "list:not-a-bucket-request", "request {}", r.target);
    ensure_eq!(r.bucket(), if c.archive { ARCHIVE_BUCKET } else { REALTIME_BUCKET }, "list:bucket");
    ensure_eq!(r.query_value("list-type"), Some("2"), "list:list-type", "request {}", r.target);
    ensure_eq!(r.query_value("prefix"), Some(prefix.as_str()), "list:prefix", "request {}", r.target);
    if c.archive {
        ensure_eq!(r.query_value("max-keys"), None, "list:archive-max-keys");
    } else {
        ensure_eq!(r.query_value("max-keys").map(|s| s.to_string()), Some(c.max_keys.to_string()), "list:realtime-max-keys");
    }

    // what must come back
    let cap = if c.archive { 1000 } else { c.max_keys.min(1000) };
    let shown = c.names.len().min(cap);
    let reported_truncated = c.force_truncated || (cap > 0 && c.names.len() > cap);
    match &c.fault {
        ListFault::Status(_) | ListFault::EmptyBody | ListFault::Html | ListFault::CutXml(_) | ListFault::InvalidUtf8 => {
            // no claim beyond totality: a value or an error, never a panic (already ensured by no_panic)
            return Ok(());
        }
        ListFault::BadSize(..) if bad_size_at.map(|k| k < shown).unwrap_or(false) => {
            ensure!(outcome.is_err(), "list:unparsable-size-accepted", "an object with Size {:?} was listed without error", match &c.fault { ListFault::BadSize(_, t) => t.as_str(), _ => "" });
            return Ok(());
        }
        _ => {}
    }
    if c.archive && reported_truncated {
        ensure!(
            matches!(outcome, Err(DataError::AWS(AWSError::TruncatedListObjectsResponse))),
            "list:truncated-archive-listing-accepted",
            "a truncated archive listing ({} of {} objects) must be TruncatedListObjectsResponse, got {}",
            shown, c.names.len(), match &outcome { Ok(v) => format!("Ok with {} entries", v.len()), Err(e) => format!("{:?}", e) }
        );
        return Ok(());
    }
    let got = outcome.map_err(|e| Fail::new("list:wellformed-listing-rejected", format!("{:?}", e)))?;
    if got.len() != shown {
        return Err(Fail::new("list:entry-count", format!("{} objects under the prefix (shown {}), {} identifiers returned", c.names.len(), shown, got.len())));
    }
    let missing_lm_at = match &c.fault {
        ListFault::MissingLastModified(idx) if shown > 0 => Some((*idx as usize * shown) >> 16),
        _ => None,
    };
    for (i, (name, when)) in got.iter().enumerate() {
        ensure_eq!(name, &c.names[i], "list:name-differs", "entry {} (bucket order)", i);
        if !c.archive {
            if missing_lm_at == Some(i) {
                continue; // no claim
            }
            ensure_eq!(*when, Some(c.stamps[i].instant()), "list:last-modified-differs", "entry {} stamp text {}", i, c.stamps[i].text());
        }
    }
    Ok(())
}

// ---------------------------------------------------------------------------------------------
// Downloads
// ---------------------------------------------------------------------------------------------

#[derive(Clone, Debug, Serialize, Deserialize)]
pub enum LastModifiedHeader {
    Rfc2822(i64),
    Absent,
    Garbage(String),
}

#[derive(Clone, Debug, Serialize, Deserialize)]
pub enum ObjectBody {
    /// arbitrary bytes
    Bytes(Vec<u8>),
    /// `len` bytes of a seeded pattern prefixed so that Chunk::new accepts it
    StartChunk { seed: u64, len: u32 },
    RecordChunk { seed: u64, len: u32 },
}

impl ObjectBody {
    pub fn bytes(&self) -> Vec<u8> {
        let pattern = |seed: u64, len: u32| -> Vec<u8> {
            let mut x = seed | 1;
            (0..len)
                .map(|_| {
                    x ^= x << 13;
                    x ^= x >> 7;
                    x ^= x << 17;
                    (x >> 32) as u8
                })
                .collect()
        };
        match self {
            ObjectBody::Bytes(b) => b.clone(),
            ObjectBody::StartChunk { seed, len } => {
                let mut v = b"AR2V0006.001".to_vec();
                v.extend(pattern(*seed, *len));
                v
            }
            ObjectBody::RecordChunk { seed, len } => {
                let mut v = vec![0, 0, 0, 9, b'B', b'Z', b'h', b'9'];
                v.extend(pattern(*seed, *len));
                v
            }
        }
    }
}

#[derive(Clone, Debug, Serialize, Deserialize)]
pub struct DownloadCase {
    pub archive: bool,
    /// archive: suffix after SSSSYYYYMMDD_HHMMSS; real-time: the whole chunk name
    pub name_tail: String,
    pub year: i32,
    pub month: u32,
    pub day: u32,
    pub hms: (u32, u32, u32),
    pub volume: usize,
    pub status: u16,
    pub body: ObjectBody,
    pub last_modified: LastModifiedHeader,
    /// declare a larger Content-Length than is sent (transfer cut short)
    pub cut_transfer: bool,
    /// upload time already carried by the identifier that is passed in (real-time only), e.g. from an
    /// earlier listing; the returned identifier must carry the downloaded object's Last-Modified instead
    #[serde(default)]
    pub identifier_time: Option<i64>,
    /// bit 0 = chunked transfer encoding (no Content-Length), bit 1 = lower-case header names
    #[serde(default)]
    pub delivery: u8,
}

pub struct ObjectWorld {
    pub response: DownloadCase,
    pub log: Vec<Request>,
}

impl World for ObjectWorld {
    fn handle(&mut self, req: &Request) -> Response {
        self.log.push(req.clone());
        let c = &self.response;
        let body = if c.status == 200 { c.body.bytes() } else { format!("<Error><Code>{}</Code></Error>", c.status).into_bytes() };
        let mut r = Response::new(c.status, body);
        match &c.last_modified {
            LastModifiedHeader::Rfc2822(secs) => {
                let dt = DateTime::<Utc>::from_timestamp(*secs, 0).expect("valid");
                r.headers.push(("Last-Modified".into(), dt.format("%a, %d %b %Y %H:%M:%S GMT").to_string()));
            }
            LastModifiedHeader::Absent => {}
            LastModifiedHeader::Garbage(g) => r.headers.push(("Last-Modified".into(), g.clone())),
        }
        if c.cut_transfer && c.status == 200 {
            r.declared_length = Some(r.body.len() + 17);
        }
        r.chunked = c.delivery & 1 != 0;
        r.lowercase_headers = c.delivery & 2 != 0;
        r
    }
}

pub fn check_download(c: &DownloadCase) -> Check {
    let server = s3sim::global();
    let site = fresh_site();
    let world = Arc::new(Mutex::new(ObjectWorld { response: c.clone(), log: Vec::new() }));
    server.register(&site, world.clone());
    let rt = runtime();
    let bytes = c.body.bytes();

    let (expected_path, outcome): (String, Result<Result<(Vec<u8>, Option<Option<DateTime<Utc>>>, Option<ChunkIdentifier>), DataError>, Fail>) = if c.archive {
        let name = format!("{}{:04}{:02}{:02}_{:02}{:02}{:02}{}", site, c.year, c.month, c.day, c.hms.0, c.hms.1, c.hms.2, c.name_tail);
        let path = format!("/{}/{:04}/{:02}/{:02}/{}/{}", ARCHIVE_BUCKET, c.year, c.month, c.day, site, name);
        let id = archive::Identifier::new(name);
        (path, no_panic("archive::download_file", || rt.block_on(archive::download_file(id)).map(|f| (f.data().clone(), None, None))))
    } else {
        let name = c.name_tail.clone();
        let path = format!("/{}/{}/{}/{}", REALTIME_BUCKET, site, c.volume, name);
        let id = ChunkIdentifier::new(site.clone(), VolumeIndex::new(c.volume), name, c.identifier_time.and_then(|t| DateTime::<Utc>::from_timestamp(t, 0)));
        (
            path,
            no_panic("realtime::download_chunk", || {
                rt.block_on(realtime::download_chunk(&site, &id)).map(|(rid, chunk)| {
                    let data = match &chunk {
                        Chunk::Start(f) => f.data().clone(),
                        Chunk::IntermediateOrEnd(r) => r.data().to_vec(),
                    };
                    (data, Some(rid.date_time()), Some(rid))
                })
            }),
        )
    };
    server.unregister(&site);
    let outcome = outcome?;
    let log = world.lock().unwrap_or_else(|e| e.into_inner()).log.clone();

    ensure_eq!(log.len(), 1, "download:request-count", "exactly one GET must be issued");
    ensure_eq!(log[0].method.as_str(), "GET", "download:method");
    ensure_eq!(log[0].path, expected_path, "download:requested-key");
    ensure!(log[0].query.is_empty(), "download:unexpected-query", "target {}", log[0].target);

    match c.status {
        404 => ensure!(matches!(outcome, Err(DataError::AWS(AWSError::S3ObjectNotFoundError))), "download:404-not-mapped-to-not-found", "got {}", describe(&outcome)),
        200 if c.cut_transfer => ensure!(outcome.is_err(), "download:cut-transfer-accepted", "a transfer cut short of its Content-Length returned Ok"),
        200 => {
            let recognisable = bytes.len() >= 3 && &bytes[..3] == b"AR2" || bytes.len() >= 6 && &bytes[4..6] == b"BZ";
            if !c.archive && !recognisable {
                ensure!(outcome.is_err(), "download:unrecognised-chunk-accepted", "bytes that are neither a start chunk nor a record were accepted");
                return Ok(());
            }
            let (data, lm, rid) = outcome.map_err(|e| Fail::new("download:ok-response-rejected", format!("{:?}", e)))?;
            ensure!(data == bytes, "download:bytes-differ", "{} bytes stored, {} bytes returned", bytes.len(), data.len());
            if let Some(lm) = lm {
                let want = match &c.last_modified {
                    LastModifiedHeader::Rfc2822(secs) => DateTime::<Utc>::from_timestamp(*secs, 0),
                    _ => None,
                };
                ensure_eq!(lm, want, "download:last-modified-not-propagated");
            }
            if let Some(rid) = rid {
                ensure_eq!(rid.site(), site.as_str(), "download:identifier-site");
                ensure_eq!(rid.volume().as_number(), c.volume, "download:identifier-volume");
                ensure_eq!(rid.name(), c.name_tail.as_str(), "download:identifier-name");
            }
        }
        _ => ensure!(outcome.is_err(), "download:error-status-accepted", "HTTP {} returned Ok", c.status),
    }
    Ok(())
}

fn describe<T>(r: &Result<T, DataError>) -> String {
    match r {
        Ok(_) => "Ok".into(),
        Err(e) => format!("{:?}", e),
    }
}

// ---------------------------------------------------------------------------------------------
// Generators
// ---------------------------------------------------------------------------------------------

/// Final path segment: XML-carriable characters, no '/', non-empty, not whitespace-only.
fn segment() -> impl Strategy<Value = String> {
    let ch = prop_oneof![
        10 => proptest::char::range('A', 'Z'),
        6 => proptest::char::range('0', '9'),
        3 => prop_oneof![Just('_'), Just('-'), Just('.')],
        4 => prop_oneof![Just('&'), Just('<'), Just('>'), Just('"'), Just('\'')],
        2 => Just(' '),
        2 => prop_oneof![Just('é'), Just('ß'), Just('雷'), Just('—'), Just('\u{7FF}'), Just('\u{FFFD}')],
        1 => prop_oneof![Just('🌪'), Just('\u{10FFFF}'), Just('𝄞')],
        1 => prop_oneof![Just(';'), Just('#'), Just('%'), Just('+'), Just('='), Just('?'), Just(']')],
    ];
    vec(ch, 1..=24).prop_map(|cs| cs.into_iter().collect::<String>()).prop_filter("not whitespace-only", |s| !s.trim().is_empty())
}

fn realistic_chunk_name() -> impl Strategy<Value = String> {
    (1usize..=55).prop_map(|s| format!("20240804-101007-{:03}-{}", s, match s { 1 => "S", 55 => "E", _ => "I" }))
}

/// Names as NOAA really writes them into the archive bucket: volume files of several Archive II versions, the
/// hourly model-data-message objects (`_MDM`), compressed and tar-ed legacy names -- every one is an object of the
/// listing and must come back.
fn realistic_archive_name() -> impl Strategy<Value = String> {
    (
        proptest::sample::select(vec!["KDMX", "KTLX", "PHWA", "TJUA", "RKSG", "DAN1"]),
        0u32..86_400,
        proptest::sample::select(vec!["_V06", "_V06_MDM", "_MDM", "_V03.gz", ".gz", "_V08", "", "_V06.tar", "_V07_MDM", "_NXL2DPBL", ".Z", "_V06.tmp"]),
    )
        .prop_map(|(site, t, tail)| format!("{}20220305_{:02}{:02}{:02}{}", site, t / 3600, t / 60 % 60, t % 60, tail))
}

fn stamp() -> impl Strategy<Value = Stamp> {
    (946_684_800i64..4_102_444_800, prop_oneof![Just(0u8), Just(3u8), Just(6u8)], 0u32..1_000_000, any::<bool>(), prop_oneof![3 => Just(0i16), 1 => Just(-300i16), 1 => Just(-360i16), 1 => Just(330i16), 1 => Just(840i16), 1 => Just(-720i16), 1 => -840i16..=840]).prop_map(|(secs, frac_digits, micros, zulu, offset_min)| Stamp { secs, frac_digits, micros, zulu, offset_min })
}

fn date() -> impl Strategy<Value = (i32, u32, u32)> {
    (1991i32..=2100, 1u32..=12, any::<u16>()).prop_map(|(y, m, d)| (y, m, 1 + d as u32 % days_in_month(y as i64, m)))
}

fn list_case(max_objects: usize) -> impl Strategy<Value = ListCase> {
    let n = prop_oneof![1 => Just(0usize), 2 => Just(1usize), 8 => 2usize..=12, 3 => 13usize..=60, 1 => 61usize..=max_objects];
    let fault = prop_oneof![
        12 => Just(ListFault::None),
        1 => prop_oneof![Just(403u16), Just(404), Just(500), Just(503)].prop_map(ListFault::Status),
        1 => Just(ListFault::EmptyBody),
        1 => Just(ListFault::Html),
        2 => any::<u16>().prop_map(ListFault::CutXml),
        1 => Just(ListFault::InvalidUtf8),
        2 => (any::<u16>(), prop_oneof![Just("abc".to_string()), Just("0x10".to_string()), Just("18446744073709551616".to_string()), Just("-1".to_string()), Just("12 ".to_string()), Just("1e3".to_string())]).prop_map(|(i, t)| ListFault::BadSize(i, t)),
        1 => any::<u16>().prop_map(ListFault::MissingLastModified),
    ];
    (any::<bool>(), date(), 1usize..=999, n, fault).prop_flat_map(|(archive, (year, month, day), volume, n, fault)| {
        let names = prop_oneof![
            3 => vec(segment(), n),
            1 => vec(realistic_chunk_name(), n),
            1 => vec(realistic_archive_name(), n),
        ];
        let size = prop_oneof![6 => any::<u32>().prop_map(|v| v as u64), 1 => Just(0u64), 1 => Just(u64::MAX), 1 => any::<u64>()];
        // sibling prefixes that do not share the requested string prefix
        let decoy = move |archive: bool| {
            if archive {
                prop_oneof![
                    Just(format!("{:04}/{:02}/{:02}/Z{}/ZFILE", year, month, day, &SITE_TOKEN[1..])),
                    Just(format!("{:04}/{:02}/{:02}/{}/OTHERDAY", year - 1, month, day, SITE_TOKEN)),
                    Just(format!("{:04}/{:02}/{:02}", year, month, day)),
                ]
                .boxed()
            } else {
                prop_oneof![
                    Just(format!("{}/{}/20240804-101007-001-S", SITE_TOKEN, if volume == 999 { 998 } else { volume + 1 })),
                    Just(format!("Z{}/{}/20240804-101007-001-S", &SITE_TOKEN[1..], volume)),
                    Just(format!("{}/{}0/20240804-101007-001-S", SITE_TOKEN, volume)),
                ]
                .boxed()
            }
        };
        (
            names,
            vec(stamp(), n),
            vec(size, n),
            vec(decoy(archive), 0..=3),
            vec(decoy(archive), 0..=3),
            prop_oneof![3 => Just(100usize), 2 => Just(1usize), 1 => Just(0usize), 2 => 1usize..=20, 1 => Just(1000usize), 1 => prop_oneof![Just(1001usize), Just(u32::MAX as usize), Just(usize::MAX / 2), Just(usize::MAX), Just(isize::MAX as usize / 56 + 1), 1001usize..=usize::MAX]],
            prop_oneof![9 => Just(false), 1 => Just(true)],
            any::<bool>(),
            (any::<bool>(), 0u8..16),
        )
            .prop_map(move |(names, stamps, sizes, decoys_before, decoys_after, max_keys, force_truncated, pretty, (extras, delivery))| ListCase {
                archive,
                year,
                month,
                day,
                volume,
                names,
                stamps,
                sizes,
                decoys_before,
                decoys_after,
                max_keys,
                force_truncated,
                pretty,
                extras,
                fault: fault.clone(),
                delivery,
            })
    })
}

fn download_case() -> impl Strategy<Value = DownloadCase> {
    let body = prop_oneof![
        2 => Just(ObjectBody::Bytes(Vec::new())),
        3 => vec(any::<u8>(), 0..=64).prop_map(ObjectBody::Bytes),
        4 => (any::<u64>(), prop_oneof![3 => 0u32..=4096, 1 => 100_000u32..=2_000_000]).prop_map(|(seed, len)| ObjectBody::StartChunk { seed, len }),
        4 => (any::<u64>(), prop_oneof![3 => 0u32..=4096, 1 => 100_000u32..=2_000_000]).prop_map(|(seed, len)| ObjectBody::RecordChunk { seed, len }),
    ];
    // characters that survive an unescaped trip through a URL path (space and non-ASCII are percent-encoded by the client)
    let tail_archive = prop_oneof![Just("".to_string()), Just("_V06".to_string()), Just("_V06_MDM".to_string()), Just(".gz".to_string()), "[A-Za-z0-9_.\\-]{0,12}", Just(" v2".to_string()), Just("_é雷".to_string())];
    let chunk_name = prop_oneof![
        4 => realistic_chunk_name(),
        2 => "[A-Za-z0-9_\\-][A-Za-z0-9_.\\-]{0,19}",
        1 => Just("20240804-101007-002-I copy".to_string()),
        1 => Just("chunk-é-雷".to_string()),
        // characters that are legal in a URL path without escaping
        2 => "[A-Za-z0-9][A-Za-z0-9+~()!*,;=:@$&']{1,16}",
    ];
    (
        any::<bool>(),
        tail_archive,
        chunk_name,
        date(),
        (0u32..24, 0u32..60, 0u32..60),
        1usize..=999,
        prop_oneof![10 => Just(200u16), 3 => Just(404u16), 1 => Just(403u16), 1 => Just(500u16), 1 => Just(503u16), 1 => Just(206u16), 1 => Just(204u16), 1 => proptest::sample::select(vec![201u16, 202, 203, 400, 401, 405, 410, 416, 429, 501, 502, 504, 599])],
        body,
        prop_oneof![5 => (946_684_800i64..4_102_444_800).prop_map(LastModifiedHeader::Rfc2822), 1 => Just(LastModifiedHeader::Absent), 1 => Just(LastModifiedHeader::Garbage("yesterday".into())), 1 => Just(LastModifiedHeader::Garbage("2024-08-04T10:10:07Z".into()))],
        (prop_oneof![12 => Just(false), 1 => Just(true)], prop_oneof![1 => Just(None), 1 => (946_684_800i64..4_102_444_800).prop_map(Some)], 0u8..4),
    )
        .prop_map(|(archive, tail, chunk, (year, month, day), hms, volume, status, body, last_modified, (cut_transfer, identifier_time, delivery))| DownloadCase {
            archive,
            name_tail: if archive { tail } else { chunk },
            year,
            month,
            day,
            hms,
            volume,
            status,
            body,
            last_modified,
            cut_transfer,
            identifier_time,
            delivery,
        })
}

pub fn classify_list(c: &ListCase) -> CaseInfo {
    let special = c.names.iter().any(|n| n.chars().any(|ch| "&<>\"'".contains(ch) || !ch.is_ascii()));
    let fault = !matches!(c.fault, ListFault::None);
    CaseInfo::new((c.names.len() >= 2 && special) || fault || c.force_truncated)
        .class(c.archive, "archive")
        .class(!c.archive, "realtime")
        .class(c.names.is_empty(), "empty-prefix")
        .class(special, "escaped-or-non-ascii-key")
        .class(c.names.iter().any(|n| n.starts_with(' ') || n.ends_with(' ')), "leading-or-trailing-space")
        .class(fault, "fault")
        .class(c.force_truncated || c.names.len() > if c.archive { 1000 } else { c.max_keys }, "truncated")
        .class(!c.archive && c.max_keys == 0 && !c.names.is_empty(), "max-keys-zero")
        .class(!c.decoys_before.is_empty() || !c.decoys_after.is_empty(), "decoys")
        .class(matches!(c.fault, ListFault::BadSize(..)), "bad-size")
        .class(c.delivery & 1 != 0, "chunked-transfer-encoding")
        .class(c.delivery >> 2 != 0, "numeric-character-references")
        .class(c.archive && c.names.iter().any(|n| n.ends_with("_MDM") || n.ends_with(".gz") || n.ends_with(".tar")), "archive-names-other-than-volumes")
}

pub fn run(ctx: &Ctx, rep: &mut Report) {
    rep.journal_cases = true;
    let _ = s3sim::global();
    rep.trust("loopback S3 simulator (harness/src/s3sim.rs): prefix filtering, stored order, max-keys, ListObjectsV2 XML with entity escaping, request log");
    rep.assume("keys have the documented 5-segment (archive) / 3-segment (real-time) form, carry only characters XML 1.0 can carry (escaped as entity references, never CDATA), and final segments are non-empty and not whitespace-only; sites are [A-Z][A-Z0-9]{3}");
    rep.assume("listing faults other than an unparsable Size or a truncated archive listing (non-200 status, empty/HTML/cut/invalid-UTF-8 bodies) are exercised for totality only: the statement makes no claim there");
    rep.assume("download names avoid '?', '#' and '%' (the code interpolates keys into the URL unescaped and real keys never contain them)");
    let _ = days_from_civil(1970, 1, 1);

    let max_objects = ctx.tier.pick(300usize, 1100usize);
    rep.prop(
        "listings",
        "proptest: bucket worlds with 0..1100 objects under the requested prefix (final segments incl. & < > quotes, spaces, BMP and astral characters), decoys under sibling prefixes, sizes to 2^64-1, LastModified with 0/3/6 fractional digits and Z / +00:00, pretty or compact XML with or without extra S3 elements, max-keys honoured, IsTruncated true/false, faults; archive::list_files and realtime::list_chunks_in_volume; non-trivial = >= 2 objects with an escaped or non-ASCII key, or any fault / truncation",
        ctx.tier.pick(20_000, 500_000),
        move || list_case(max_objects),
        classify_list,
        check_list,
    );
    // the 1000-key boundary of an archive listing, every run: exactly 1000 objects are listed in full,
    // 1001 objects come back truncated and must be an error
    for n in [999usize, 1000, 1001] {
        let c = ListCase {
            archive: true,
            year: 2024,
            month: 2,
            day: 29,
            volume: 1,
            names: (0..n).map(|i| format!("OBJ{:04}_V06", i)).collect(),
            stamps: (0..n).map(|i| Stamp { secs: 1_700_000_000 + i as i64, frac_digits: 3, micros: 1000 * (i as u32 % 1000), zulu: true, offset_min: 0 }).collect(),
            sizes: (0..n).map(|i| i as u64).collect(),
            decoys_before: vec![],
            decoys_after: vec![],
            max_keys: 100,
            force_truncated: false,
            pretty: n % 2 == 0,
            extras: true,
            fault: ListFault::None,
            delivery: (n % 4) as u8,
        };
        let r = crate::runner::guard(|| check_list(&c)).unwrap_or_else(|p| Err(Fail::new("panic:oracle-or-code", p)));
        if let Err(f) = r {
            rep.record_failure("listings", f, serde_json::json!(c));
        }
    }
    rep.enumerated("listing-1000-key-boundary", "archive listings of exactly 999, 1000 and 1001 objects (the last one is truncated by the simulator and must be an error)", 3, 3, true);
    rep.sample("listing-1000-key-boundary", serde_json::json!({"objects": 1001}));
    rep.require_class("listings", "escaped-or-non-ascii-key", 100);
    rep.require_class("listings", "truncated", 20);
    rep.require_class("listings", "bad-size", 20);
    rep.require_class("listings", "archive", 100);
    rep.require_class("listings", "realtime", 100);
    rep.require_class("listings", "archive-names-other-than-volumes", 50);
    rep.require_class("listings", "max-keys-zero", 30);

    rep.prop(
        "downloads",
        "proptest: one stored object (0 B..2 MiB; arbitrary bytes, start-chunk-like or record-like) served with status 200/204/206/403/404/500/503, Last-Modified valid RFC 2822 / absent / garbage, optionally a transfer cut short; archive::download_file and realtime::download_chunk; oracle = exactly one GET for the documented key, bytes unchanged, Last-Modified and identifier propagated, 404 -> not-found error, other status -> error; non-trivial = non-empty object or any non-200 status",
        ctx.tier.pick(20_000, 500_000),
        download_case,
        |c| {
            CaseInfo::new(!c.body.bytes().is_empty() || c.status != 200)
                .class(c.archive, "archive")
                .class(!c.archive, "realtime")
                .class(c.status == 404, "not-found")
                .class(c.status != 200 && c.status != 404, "other-status")
                .class(c.cut_transfer, "cut-transfer")
                .class(!c.archive && c.identifier_time.is_some(), "identifier-already-timestamped")
                .class(c.delivery & 1 != 0, "chunked-transfer-encoding")
                .class(matches!(c.body, ObjectBody::StartChunk { len, .. } | ObjectBody::RecordChunk { len, .. } if len >= 100_000), "large-object")
                .class(!c.name_tail.is_ascii() || c.name_tail.contains(' '), "name-needs-percent-encoding")
        },
        check_download,
    );
    rep.require_class("downloads", "not-found", 50);
    rep.require_class("downloads", "other-status", 50);
    rep.require_class("downloads", "large-object", 10);
    rep.require_class("downloads", "identifier-already-timestamped", 50);
    rep.require_class("downloads", "chunked-transfer-encoding", 50);
}

pub fn replay(sub: &str, case: &Value) -> Check {
    let _ = s3sim::global();
    match sub {
        "listings" => check_list(&from_case::<ListCase>(case)?),
        "downloads" => check_download(&from_case::<DownloadCase>(case)?),
        other => super::unknown_sub(other),
    }
}
