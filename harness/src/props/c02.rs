//! C02  Type-31 radial messages decode field-exactly from the ICD layout.

use crate::gen::{self, DrdOpts};
use crate::runner::{from_case, no_panic, CaseInfo, Check, Ctx, Fail, Report, Tier};
use crate::wire::*;
use crate::{ensure, ensure_eq};
use nexrad_decode::messages::digital_radar_data as drd;
use nexrad_decode::messages::{decode_messages, MessageContents};
use proptest::prelude::*;
use serde::{Deserialize, Serialize};
use serde_json::{json, Value};
use std::io::Cursor;

fn bits(f: f32) -> u32 {
    f.to_bits()
}

pub fn check_drd_header(s: &DrdHeaderSpec, n_blocks: usize, h: &drd::Header) -> Check {
    ensure_eq!(h.radar_identifier, s.radar_id, "drd-header:radar_identifier@0");
    ensure_eq!(h.time, s.time, "drd-header:time@4");
    ensure_eq!(h.date, s.date, "drd-header:date@8");
    ensure_eq!(h.azimuth_number, s.az_num, "drd-header:azimuth_number@10");
    ensure_eq!(bits(h.azimuth_angle), s.az_angle_bits, "drd-header:azimuth_angle@12");
    ensure_eq!(h.compression_indicator, s.compression, "drd-header:compression_indicator@16");
    ensure_eq!(h.spare, s.spare, "drd-header:spare@17");
    ensure_eq!(h.radial_length, s.radial_length, "drd-header:radial_length@18");
    ensure_eq!(h.azimuth_resolution_spacing, s.az_spacing, "drd-header:azimuth_resolution_spacing@20");
    ensure_eq!(h.radial_status, s.status, "drd-header:radial_status@21");
    ensure_eq!(h.elevation_number, s.elev_num, "drd-header:elevation_number@22");
    ensure_eq!(h.cut_sector_number, s.cut_sector, "drd-header:cut_sector_number@23");
    ensure_eq!(bits(h.elevation_angle), s.elev_angle_bits, "drd-header:elevation_angle@24");
    ensure_eq!(h.radial_spot_blanking_status, s.spot, "drd-header:radial_spot_blanking_status@28");
    ensure_eq!(h.azimuth_indexing_mode, s.az_index, "drd-header:azimuth_indexing_mode@29");
    ensure_eq!(h.data_block_count as usize, n_blocks, "drd-header:data_block_count@30");
    Ok(())
}

fn check_id(kind: &str, id: &drd::DataBlockId, id_type: u8, name: &[u8; 3]) -> Check {
    ensure_eq!(id.data_block_type, id_type, format!("{}:data_block_type@0", kind));
    ensure_eq!(&id.data_name, name, format!("{}:data_name@1", kind));
    // accessor views of the same two fields
    ensure_eq!(id.data_block_name(), String::from_utf8_lossy(name).to_string(), format!("{}:data_block_name()", kind));
    ensure_eq!(id.data_block_type(), id_type as char, format!("{}:data_block_type()", kind));
    Ok(())
}

pub fn check_vol(s: &VolSpec, b: &drd::VolumeDataBlock) -> Check {
    check_id("vol", &b.data_block_id, s.id_type, b"VOL")?;
    ensure_eq!(b.lrtup, s.lrtup, "vol:lrtup@4");
    ensure_eq!(b.major_version_number, s.major, "vol:major_version_number@6");
    ensure_eq!(b.minor_version_number, s.minor, "vol:minor_version_number@7");
    ensure_eq!(bits(b.latitude), s.lat_bits, "vol:latitude@8");
    ensure_eq!(bits(b.longitude), s.lon_bits, "vol:longitude@12");
    ensure_eq!(b.site_height, s.site_height, "vol:site_height@16");
    ensure_eq!(b.feedhorn_height, s.feedhorn, "vol:feedhorn_height@18");
    ensure_eq!(bits(b.calibration_constant), s.calib_bits, "vol:calibration_constant@20");
    ensure_eq!(bits(b.horizontal_shv_tx_power), s.htx_bits, "vol:horizontal_shv_tx_power@24");
    ensure_eq!(bits(b.vertical_shv_tx_power), s.vtx_bits, "vol:vertical_shv_tx_power@28");
    ensure_eq!(bits(b.system_differential_reflectivity), s.zdr_bits, "vol:system_differential_reflectivity@32");
    ensure_eq!(bits(b.initial_system_differential_phase), s.phi_bits, "vol:initial_system_differential_phase@36");
    ensure_eq!(b.volume_coverage_pattern_number, s.vcp, "vol:volume_coverage_pattern_number@40");
    ensure_eq!(b.processing_status, s.processing, "vol:processing_status@42");
    ensure_eq!(b.zdr_bias_estimate_weighted_mean, s.zdr_bias, "vol:zdr_bias_estimate_weighted_mean@44");
    ensure_eq!(b.spare, s.spare, "vol:spare@46");
    Ok(())
}

pub fn check_elv(s: &ElvSpec, b: &drd::ElevationDataBlock) -> Check {
    check_id("elv", &b.data_block_id, s.id_type, b"ELV")?;
    ensure_eq!(b.lrtup, s.lrtup, "elv:lrtup@4");
    ensure_eq!(b.atmos, s.atmos, "elv:atmos@6");
    ensure_eq!(bits(b.calibration_constant), s.calib_bits, "elv:calibration_constant@8");
    Ok(())
}

pub fn check_rad(s: &RadSpec, b: &drd::RadialDataBlock) -> Check {
    check_id("rad", &b.data_block_id, s.id_type, b"RAD")?;
    ensure_eq!(b.lrtup, s.lrtup, "rad:lrtup@4");
    ensure_eq!(b.unambiguous_range, s.unamb_range, "rad:unambiguous_range@6");
    ensure_eq!(bits(b.horizontal_channel_noise_level), s.hnoise_bits, "rad:horizontal_channel_noise_level@8");
    ensure_eq!(bits(b.vertical_channel_noise_level), s.vnoise_bits, "rad:vertical_channel_noise_level@12");
    ensure_eq!(b.nyquist_velocity, s.nyquist, "rad:nyquist_velocity@16");
    ensure_eq!(b.radial_flags, s.flags, "rad:radial_flags@18");
    ensure_eq!(bits(b.horizontal_channel_calibration_constant), s.hcal_bits, "rad:horizontal_channel_calibration_constant@20");
    ensure_eq!(bits(b.vertical_channel_calibration_constant), s.vcal_bits, "rad:vertical_channel_calibration_constant@24");
    Ok(())
}

pub fn check_moment(label: &str, name: &[u8; 3], s: &MomentSpec, b: &drd::GenericDataBlock) -> Check {
    let h = &b.header;
    check_id(label, &h.data_block_id, s.id_type, name)?;
    ensure_eq!(h.reserved, s.reserved, format!("moment:reserved@4[{}]", label));
    ensure_eq!(h.number_of_data_moment_gates, s.gates, format!("moment:number_of_data_moment_gates@8[{}]", label));
    ensure_eq!(h.data_moment_range, s.range, format!("moment:data_moment_range@10[{}]", label));
    ensure_eq!(h.data_moment_range_sample_interval, s.interval, format!("moment:data_moment_range_sample_interval@12[{}]", label));
    ensure_eq!(h.tover, s.tover, format!("moment:tover@14[{}]", label));
    ensure_eq!(h.snr_threshold, s.snr, format!("moment:snr_threshold@16[{}]", label));
    ensure_eq!(h.control_flags, s.ctrl, format!("moment:control_flags@18[{}]", label));
    ensure_eq!(h.data_word_size, s.word_size, format!("moment:data_word_size@19[{}]", label));
    ensure_eq!(bits(h.scale), s.scale_bits, format!("moment:scale@20[{}]", label));
    ensure_eq!(bits(h.offset), s.offset_bits, format!("moment:offset@24[{}]", label));
    ensure_eq!(b.encoded_data.len(), s.expected_len(), format!("moment:gate-buffer-length[{}]", label), "gates {} word size {}", s.gates, s.word_size);
    ensure!(b.encoded_data == s.data, format!("moment:gate-bytes-differ[{}]", label), "{} gate bytes differ from the encoded ones", s.data.len());
    ensure!(b.encoded_values() == &s.data[..], format!("moment:encoded_values-differ[{}]", label), "encoded_values() differs");
    // accessor view of the block's size: gates x word-bytes (exact in f64 for every u16 x u8)
    ensure_eq!(h.moment_size().get::<uom::si::information::byte>(), s.gates as f64 * s.word_size as f64 / 8.0, format!("moment:moment_size()[{}]", label), "gates {} word size {}", s.gates, s.word_size);
    Ok(())
}

/// Compare a decoded type-31 message with its spec (shared with C01 and C03).
pub fn check_drd(s: &DrdSpec, m: &drd::Message) -> Check {
    check_drd_header(&s.header, s.pointer_order.len(), &m.header)?;
    match (&s.vol, &m.volume_data_block) {
        (Some(a), Some(b)) => check_vol(a, b)?,
        (None, None) => {}
        (Some(_), None) => return Err(Fail::new("block-presence:VOL-lost", "VOL block encoded but reported absent")),
        (None, Some(_)) => return Err(Fail::new("block-presence:VOL-invented", "VOL block absent but reported present")),
    }
    match (&s.elv, &m.elevation_data_block) {
        (Some(a), Some(b)) => check_elv(a, b)?,
        (None, None) => {}
        (Some(_), None) => return Err(Fail::new("block-presence:ELV-lost", "ELV block encoded but reported absent")),
        (None, Some(_)) => return Err(Fail::new("block-presence:ELV-invented", "ELV block absent but reported present")),
    }
    match (&s.rad, &m.radial_data_block) {
        (Some(a), Some(b)) => check_rad(a, b)?,
        (None, None) => {}
        (Some(_), None) => return Err(Fail::new("block-presence:RAD-lost", "RAD block encoded but reported absent")),
        (None, Some(_)) => return Err(Fail::new("block-presence:RAD-invented", "RAD block absent but reported present")),
    }
    let decoded: [&Option<drd::GenericDataBlock>; 7] = [
        &m.reflectivity_data_block,
        &m.velocity_data_block,
        &m.spectrum_width_data_block,
        &m.differential_reflectivity_data_block,
        &m.differential_phase_data_block,
        &m.correlation_coefficient_data_block,
        &m.specific_diff_phase_data_block,
    ];
    for i in 0..7 {
        let label = MOMENT_LABELS[i];
        match (&s.moments[i], decoded[i]) {
            (Some(a), Some(b)) => check_moment(label, BLOCK_NAMES[3 + i], a, b)?,
            (None, None) => {}
            (Some(_), None) => return Err(Fail::new(format!("block-presence:{}-lost", label), format!("{} block encoded but reported absent (mis-routed?)", label))),
            (None, Some(_)) => return Err(Fail::new(format!("block-presence:{}-invented", label), format!("{} block absent but reported present (mis-routed?)", label))),
        }
    }
    Ok(())
}

#[derive(Clone, Debug, Serialize, Deserialize)]
pub struct Case {
    pub drd: DrdSpec,
    pub header: MsgHeaderSpec,
    /// junk bytes placed before the message when decoding from a non-zero stream position
    pub lead: Vec<u8>,
}

pub fn check_case(c: &Case) -> Check {
    let body = c.drd.encode_body();
    // (0) history: a failed decode of a truncated copy on the same thread must not influence what follows
    if let Some(sel) = c.lead.first() {
        let cut = (*sel as usize * body.len()) >> 8;
        let _ = no_panic("decode_digital_radar_data", || drd::decode_digital_radar_data(&mut Cursor::new(&body[..cut])).map(|_| ()))?;
    }
    // (1) direct entry point at stream position 0
    let m = no_panic("decode_digital_radar_data", || drd::decode_digital_radar_data(&mut Cursor::new(&body[..])))?
        .map_err(|e| Fail::new("drd:wellformed-rejected", format!("{:?}", e)))?;
    check_drd(&c.drd, &m)?;
    // (2) direct entry point at a non-zero stream position (pointers are relative to the message start)
    let mut shifted = c.lead.clone();
    shifted.extend_from_slice(&body);
    let mut cur = Cursor::new(&shifted[..]);
    cur.set_position(c.lead.len() as u64);
    let m2 = no_panic("decode_digital_radar_data", || drd::decode_digital_radar_data(&mut cur))?
        .map_err(|e| Fail::new("drd:wellformed-rejected-at-offset", format!("lead {} bytes: {:?}", c.lead.len(), e)))?;
    check_drd(&c.drd, &m2)?;
    // (2b) a reader that delivers short reads (and seeks) must give the same message
    {
        let step = if body.len() > 20_000 { 1021 } else { 3 + c.lead.len() % 11 };
        let mut r = crate::runner::Chunked::at(&shifted, step, c.lead.len() as u64);
        let m3 = no_panic("decode_digital_radar_data", || drd::decode_digital_radar_data(&mut r))?
            .map_err(|e| Fail::new("drd:wellformed-rejected-short-reads", format!("reader delivering {} bytes per read: {:?}", step, e)))?;
        check_drd(&c.drd, &m3)?;
    }
    // (3) through the message-stream decoder (28-byte message header first).  Only for contiguous
    // layouts: with permuted or gapped blocks the reader is left mid-message, which is outside the
    // statement (C03 restricts framing to contiguous layouts).
    if c.drd.is_contiguous() {
        let mut stream = c.header.encode().to_vec();
        stream.extend_from_slice(&body);
        let v = no_panic("decode_messages", || decode_messages(&mut Cursor::new(&stream[..])))?
            .map_err(|e| Fail::new("drd:stream-wellformed-rejected", format!("{:?}", e)))?;
        ensure_eq!(v.len(), 1, "drd:stream-message-count");
        match v[0].contents() {
            MessageContents::DigitalRadarData(d) => check_drd(&c.drd, d)?,
            _ => return Err(Fail::new("drd:stream-wrong-contents", "type 31 message did not decode as digital radar data")),
        }
        // (4) the message followed, in the same stream, by a sibling radial of the same elevation that lacks the VOL /
        // ELV / RAD blocks: each message must be reported with exactly its own blocks (nothing carried over)
        let mut sibling = c.drd.clone();
        sibling.vol = None;
        sibling.elv = None;
        sibling.rad = None;
        let keep: Vec<bool> = sibling.physical_order.iter().map(|k| ![VOL, ELV, RAD].contains(k)).collect();
        sibling.pointer_order.retain(|k| ![VOL, ELV, RAD].contains(k));
        sibling.physical_order.retain(|k| ![VOL, ELV, RAD].contains(k));
        let mut i = 0;
        sibling.gaps.retain(|_| {
            let k = keep.get(i).copied().unwrap_or(true);
            i += 1;
            k
        });
        sibling.header.az_num = sibling.header.az_num.wrapping_add(1);
        for pair in [[&c.drd, &sibling], [&sibling, &c.drd]] {
            let mut two = Vec::new();
            for d in pair {
                two.extend_from_slice(&c.header.encode());
                two.extend_from_slice(&d.encode_body());
            }
            let v = no_panic("decode_messages", || decode_messages(&mut Cursor::new(&two[..])))?
                .map_err(|e| Fail::new("drd:two-message-stream-rejected", format!("{:?}", e)))?;
            ensure_eq!(v.len(), 2, "drd:two-message-stream-count");
            for (m, d) in v.iter().zip(pair.iter()) {
                match m.contents() {
                    MessageContents::DigitalRadarData(got) => check_drd(d, got).map_err(|f| Fail::new(f.sig, format!("in a two-message stream: {}", f.detail)))?,
                    _ => return Err(Fail::new("drd:stream-wrong-contents", "type 31 message did not decode as digital radar data")),
                }
            }
        }
    }
    Ok(())
}

/// Deterministic spec in which every field carries a value derived from its index, so that any two
/// same-typed fields differ.
pub fn fingerprint(mask: u16, variant: u32) -> DrdSpec {
    let mut k: u32 = 0x0101 + variant * 0x1000;
    let mut next = || {
        k = k.wrapping_mul(1_664_525).wrapping_add(1_013_904_223);
        k
    };
    let mut n8 = {
        let mut c = 0x10u8.wrapping_add(variant as u8);
        move || {
            c = c.wrapping_add(7);
            c
        }
    };
    let mut c16 = 0x2000u16.wrapping_add((variant * 3) as u16);
    let mut n16 = move || {
        c16 = c16.wrapping_add(0x0101);
        c16
    };
    let mut c32 = 0x3F80_0000u32 + variant;
    let mut n32 = move || {
        c32 = c32.wrapping_add(0x0001_0203);
        c32
    };
    let header = DrdHeaderSpec {
        radar_id: [n8(), n8(), n8(), n8()],
        time: n32(),
        date: n16(),
        az_num: n16(),
        az_angle_bits: n32(),
        compression: n8(),
        spare: n8(),
        radial_length: n16(),
        az_spacing: n8(),
        status: n8(),
        elev_num: n8(),
        cut_sector: n8(),
        elev_angle_bits: n32(),
        spot: n8(),
        az_index: n8(),
    };
    let vol = (mask & 1 != 0).then(|| VolSpec {
        id_type: n8(),
        lrtup: n16(),
        major: n8(),
        minor: n8(),
        lat_bits: n32(),
        lon_bits: n32(),
        site_height: n16() as i16,
        feedhorn: n16(),
        calib_bits: n32(),
        htx_bits: n32(),
        vtx_bits: n32(),
        zdr_bits: n32(),
        phi_bits: n32(),
        vcp: n16(),
        processing: n16(),
        zdr_bias: n16(),
        spare: [n8(), n8(), n8(), n8(), n8(), n8()],
    });
    let elv = (mask & 2 != 0).then(|| ElvSpec { id_type: n8(), lrtup: n16(), atmos: n16() as i16, calib_bits: n32() });
    let rad = (mask & 4 != 0).then(|| RadSpec {
        id_type: n8(),
        lrtup: n16(),
        unamb_range: n16(),
        hnoise_bits: n32(),
        vnoise_bits: n32(),
        nyquist: n16(),
        flags: n16(),
        hcal_bits: n32(),
        vcal_bits: n32(),
    });
    let mut moments: [Option<MomentSpec>; 7] = Default::default();
    for i in 0..7 {
        if mask & (8 << i) != 0 {
            let word_size = if (i as u32 + variant) % 3 == 0 { 16 } else { 8 };
            let gates = 3 + ((i as u32 * 5 + variant) % 11) as u16;
            let len = gates as usize * (word_size as usize / 8);
            moments[i] = Some(MomentSpec {
                id_type: n8(),
                reserved: n32(),
                gates,
                range: n16(),
                interval: n16(),
                tover: n16(),
                snr: n16(),
                ctrl: (i as u8) % 4,
                word_size,
                scale_bits: n32(),
                offset_bits: n32(),
                data: (0..len).map(|j| (next() >> 16) as u8 ^ j as u8).collect(),
            });
        }
    }
    let mut spec = DrdSpec { header, vol, elv, rad, moments, pointer_order: vec![], physical_order: vec![], gaps: vec![] };
    let present = spec.present();
    // variant-dependent layout: rotate pointer order, reverse physical order, small gaps
    let n = present.len();
    let mut ptr = present.clone();
    if n > 0 {
        ptr.rotate_left(variant as usize % n);
    }
    let mut phys = present.clone();
    if variant % 2 == 1 {
        phys.reverse();
    }
    if n > 0 {
        phys.rotate_left((variant / 2) as usize % n);
    }
    spec.gaps = (0..n).map(|i| vec![0xEE; ((i as u32 + variant) % 4) as usize * (variant as usize % 3)]).collect();
    spec.pointer_order = ptr;
    spec.physical_order = phys;
    spec
}

fn plain_header() -> MsgHeaderSpec {
    MsgHeaderSpec { rpg: [0; 12], size: 0x1234, channel: 8, mtype: 31, seq: 9, date: 19_876, time: 3_600_000, seg_count: 1, seg_num: 1 }
}

pub fn classify(c: &Case) -> CaseInfo {
    let d = &c.drd;
    let n_mom = d.moments.iter().filter(|m| m.is_some()).count();
    let permuted = d.pointer_order != d.physical_order;
    let gapped = d.gaps.iter().any(|g| !g.is_empty());
    CaseInfo::new(n_mom >= 1 && (permuted || gapped))
        .class(d.pointer_order.is_empty(), "no-blocks")
        .class(d.pointer_order.len() == 10, "all-ten-blocks")
        .class(d.moments.iter().flatten().any(|m| m.word_size == 16), "16-bit-moment")
        .class(d.moments.iter().flatten().any(|m| m.gates == 0), "zero-gates")
        .class(d.moments.iter().flatten().any(|m| m.gates > 1840), "gates-above-1840")
        .class(permuted, "permuted")
        .class(gapped, "gapped")
        .class(!c.lead.is_empty(), "decoded-at-offset")
}

pub fn run(ctx: &Ctx, rep: &mut Report) {
    rep.trust("independent wire encoder: type-31 header (32 B), pointer table, VOL 52 B, ELV 12 B, RAD 28 B, moment header 28 B + gates*word/8 bytes");
    rep.assume("floats are compared by bit pattern; duplicate block names and overlapping blocks are malformed input (C04's domain)");

    // fingerprint case for every block subset (all 1024, cheap) x variants
    {
        let variants = ctx.tier.pick(4u32, 40u32);
        let mut n = 0u64;
        let mut nt = 0u64;
        for mask in 0..1024u16 {
            for v in 0..variants {
                let c = Case { drd: fingerprint(mask, v), header: plain_header(), lead: vec![0xAB; (v as usize * 3) % 17] };
                n += 1;
                if classify(&c).nontrivial {
                    nt += 1;
                }
                let r = crate::runner::guard(|| check_case(&c)).unwrap_or_else(|p| Err(Fail::new("panic:oracle-or-code", p)));
                if let Err(f) = r {
                    rep.record_failure("all-subsets-fingerprint", f, json!(c));
                }
            }
        }
        rep.enumerated(
            "all-subsets-fingerprint",
            "all 1024 block subsets x layout variants (rotated pointer order, reversed/rotated physical order, gaps, decode offset), every field carrying a value derived from its index so that any two same-typed fields differ; non-trivial = >= 1 moment and (permuted or gapped)",
            n,
            nt,
            true,
        );
        rep.sample("all-subsets-fingerprint", json!({"mask": 0x3FF, "variant": 1}));
    }

    let opts = DrdOpts::fidelity();
    rep.prop(
        "random-messages",
        "proptest: type-31 messages with arbitrary field values (floats as arbitrary bit patterns incl. NaN/inf), random block subset, independent pointer and physical orders, 0..16-byte gaps, gates 0..1840 (some to 65535), word size 8/16, decoded directly, at a stream offset, and through decode_messages; non-trivial = >= 1 moment and (permuted or gapped)",
        ctx.tier.pick(600_000, 20_000_000),
        move || {
            (gen::drd(opts, gen::elevation_any(), None), gen::msg_header(31, None), proptest::collection::vec(any::<u8>(), 0..=40))
                .prop_map(|(drd, header, lead)| Case { drd, header, lead })
        },
        classify,
        check_case,
    );
    rep.require_class("random-messages", "16-bit-moment", 50);
    rep.require_class("random-messages", "gates-above-1840", 10);
    rep.require_class("random-messages", "permuted", 200);
    if ctx.tier == Tier::Thorough {
        rep.require_class("random-messages", "all-ten-blocks", 100);
    }
}

pub fn replay(sub: &str, case: &Value) -> Check {
    match sub {
        "random-messages" | "all-subsets-fingerprint" => check_case(&from_case::<Case>(case)?),
        other => super::unknown_sub(other),
    }
}
