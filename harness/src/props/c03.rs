//! C03  Message streams are framed correctly: N messages in, N messages out.

use crate::gen::{self, DrdOpts};
use crate::props::{c02, c10, c11, c12};
use crate::runner::{from_case, no_panic, CaseInfo, Check, Ctx, Fail, Report, Tier};
use crate::wire::*;
use crate::{ensure, ensure_eq};
use nexrad_data::volume::Record;
use nexrad_decode::messages::{decode_messages, Message, MessageContents};
use proptest::collection::vec;
use proptest::prelude::*;
use serde::{Deserialize, Serialize};
use serde_json::{json, Value};
use std::io::Cursor;

#[derive(Clone, Debug, Serialize, Deserialize)]
pub struct StreamCase {
    pub msgs: Vec<MsgSpec>,
    pub cut_selectors: Vec<u16>,
    /// 0..27 junk bytes appended after the last message ("a trailing fragment shorter than a header is ignored")
    pub trailing: Vec<u8>,
}

/// Compare one decoded message with its spec.
pub fn check_message(i: usize, spec: &MsgSpec, m: &Message) -> Check {
    c10::check_layout(&spec.header, m.header()).map_err(|f| Fail::new(f.sig, format!("message {}: {}", i, f.detail)))?;
    let r = match (&spec.body, m.contents()) {
        (BodySpec::Drd(s), MessageContents::DigitalRadarData(d)) if spec.header.mtype == 31 => c02::check_drd(s, d),
        (BodySpec::Rda(s, _), MessageContents::RDAStatusData(d)) if spec.header.mtype == 2 => c12::check_layout(s, d),
        (BodySpec::Vcp(s, _), MessageContents::VolumeCoveragePattern(d)) if spec.header.mtype == 5 => c11::check_vcp_message(s, d),
        (BodySpec::Opaque(_), MessageContents::Other) => Ok(()),
        (_, got) => Err(Fail::new(
            "framing:wrong-contents-kind",
            format!("type code {} ({}) surfaced as {}", spec.header.mtype, spec.kind(), contents_kind(got)),
        )),
    };
    r.map_err(|f| Fail::new(f.sig, format!("message {} ({}): {}", i, spec.kind(), f.detail)))
}

fn contents_kind(c: &MessageContents) -> &'static str {
    match c {
        MessageContents::RDAStatusData(_) => "RDAStatusData",
        MessageContents::DigitalRadarData(_) => "DigitalRadarData",
        MessageContents::ClutterFilterMap(_) => "ClutterFilterMap",
        MessageContents::VolumeCoveragePattern(_) => "VolumeCoveragePattern",
        MessageContents::Other => "Other",
    }
}

pub fn cut_points(bounds: &[usize], total: usize, selectors: &[u16]) -> Vec<usize> {
    let mut cuts = Vec::new();
    if total <= 9_000 {
        cuts.extend(0..total);
    } else {
        let mut chosen: Vec<usize> = vec![0, bounds.len().saturating_sub(2), bounds.len() - 1];
        for s in selectors.iter().take(4) {
            chosen.push((*s as usize * bounds.len()) >> 16);
        }
        for bi in chosen {
            let b = bounds[bi.min(bounds.len() - 1)] as i64;
            for d in -40i64..=40 {
                let c = b + d;
                if c >= 0 && (c as usize) < total {
                    cuts.push(c as usize);
                }
            }
        }
        for s in selectors.iter().take(64) {
            cuts.push((*s as usize * total) >> 16);
        }
    }
    cuts.sort_unstable();
    cuts.dedup();
    cuts
}

pub fn check_stream(c: &StreamCase) -> Check {
    ensure!(c.trailing.len() < MSG_HEADER_LEN, "replay-format", "trailing fragment must be shorter than a header");
    let (stream, bounds) = encode_stream(&c.msgs);
    let n = c.msgs.len();

    // (1) whole stream (+ an ignorable trailing fragment)
    let mut with_tail = stream.clone();
    with_tail.extend_from_slice(&c.trailing);
    let decoded = no_panic("decode_messages", || decode_messages(&mut Cursor::new(&with_tail[..])))?
        .map_err(|e| Fail::new("framing:wellformed-stream-rejected", format!("{} messages ({} bytes): {:?}", n, stream.len(), e)))?;
    if decoded.len() != n {
        return Err(Fail::new(
            "framing:message-count",
            format!("{} messages in, {} out (kinds: {})", n, decoded.len(), c.msgs.iter().map(|m| m.kind()).collect::<Vec<_>>().join(",")),
        ));
    }
    for (i, (spec, m)) in c.msgs.iter().zip(decoded.iter()).enumerate() {
        check_message(i, spec, m)?;
        // equals the message decoded alone
        let alone_bytes = &stream[bounds[i]..bounds[i + 1]];
        let alone = no_panic("decode_messages", || decode_messages(&mut Cursor::new(alone_bytes)))?
            .map_err(|e| Fail::new("framing:single-message-rejected", format!("message {} alone: {:?}", i, e)))?;
        ensure_eq!(alone.len(), 1, "framing:single-message-count", "message {} alone", i);
        ensure!(alone[0] == *m, "framing:differs-from-decoded-alone", "message {} ({}) differs from its stand-alone decoding", i, spec.kind());
    }

    // (1b) the same bytes delivered in short reads must decode to the same list
    {
        let step = if with_tail.len() > 50_000 { 2048 + c.cut_selectors.len() } else { 1 + c.cut_selectors.len() % 37 };
        let mut r = crate::runner::Chunked::new(&with_tail, step);
        let again = no_panic("decode_messages", || decode_messages(&mut r))?
            .map_err(|e| Fail::new("framing:wellformed-stream-rejected-short-reads", format!("reader delivering {} bytes per read: {:?}", step, e)))?;
        ensure!(again == decoded, "framing:depends-on-read-chunking", "decode_messages over a reader delivering {} bytes per read differs from the Cursor decode", step);
    }

    // (1c) the same stream behind a prefix, with the reader positioned at the start of the stream: decoding must not
    // depend on the absolute position of the reader (type-31 pointers are relative to the message start)
    {
        let lead = 1 + (c.cut_selectors.len() * 7 + c.trailing.len()) % 61;
        let mut shifted = vec![0xA5u8; lead];
        if lead >= 24 {
            shifted[..9].copy_from_slice(b"AR2V0006.");
        }
        shifted.extend_from_slice(&with_tail);
        let mut cur = Cursor::new(&shifted[..]);
        cur.set_position(lead as u64);
        let again = no_panic("decode_messages", || decode_messages(&mut cur))?
            .map_err(|e| Fail::new("framing:wellformed-stream-rejected-at-offset", format!("reader positioned {} bytes into its source: {:?}", lead, e)))?;
        ensure!(again == decoded, "framing:depends-on-reader-position", "decode_messages from a reader positioned {} bytes into its source differs from the decode at position 0", lead);
    }

    // (3) the same through an LDM record (unless the bytes happen to look compressed: 'BZ' at 4..6)
    if !(stream.len() >= 6 && &stream[4..6] == b"BZ") {
        let rec = Record::new(stream.clone());
        let via = no_panic("Record::messages", || rec.messages())?
            .map_err(|e| Fail::new("framing:record-path-rejected", format!("{:?}", e)))?;
        ensure_eq!(via.len(), n, "framing:record-path-message-count");
        ensure!(via == decoded[..], "framing:record-path-differs", "Record::messages differs from decode_messages");
    }

    // (2) truncation model
    for cut in cut_points(&bounds, stream.len(), &c.cut_selectors) {
        check_cut(&stream, &bounds, cut)?;
    }
    Ok(())
}

/// cut in [b_k, b_k + 28) -> Ok with exactly k messages; cut in [b_k + 28, b_{k+1}) -> Err.
pub fn check_cut(stream: &[u8], bounds: &[usize], cut: usize) -> Check {
    let k = match bounds.iter().rposition(|b| *b <= cut) {
        Some(k) => k,
        None => return Ok(()),
    };
    let r = no_panic("decode_messages", || decode_messages(&mut Cursor::new(&stream[..cut])))?;
    let in_header = cut < bounds[k] + MSG_HEADER_LEN || k == bounds.len() - 1;
    if in_header {
        match r {
            Ok(v) => ensure_eq!(v.len(), k, "truncation:count-at-header-fragment", "cut {} lies {} bytes into message {}", cut, cut - bounds[k], k),
            Err(e) => {
                return Err(Fail::new(
                    "truncation:header-fragment-not-ignored",
                    format!("cut {} leaves a {}-byte fragment (< 28) after {} whole messages but decoding failed: {:?}", cut, cut - bounds[k], k, e),
                ))
            }
        }
    } else {
        ensure!(
            r.is_err(),
            "truncation:cut-inside-body-accepted",
            "cut {} lies inside the body of message {} ({} bytes past its start) but decoding returned Ok with {} messages",
            cut, k, cut - bounds[k], r.as_ref().map(|v| v.len()).unwrap_or(0)
        );
    }
    Ok(())
}

pub fn classify(c: &StreamCase) -> CaseInfo {
    let kinds: std::collections::HashSet<&str> = c.msgs.iter().map(|m| m.kind()).collect();
    let drd_not_last = c.msgs.iter().rev().skip(1).any(|m| m.kind() == "drd");
    CaseInfo::new(c.msgs.len() >= 2 && kinds.len() >= 2 && drd_not_last)
        .class(c.msgs.is_empty(), "empty-stream")
        .class(c.msgs.len() == 1, "single-message")
        .class(c.msgs.len() > 50, "long-stream")
        .class(kinds.contains("drd"), "has-type-31")
        .class(kinds.contains("vcp"), "has-type-5")
        .class(kinds.contains("rda"), "has-type-2")
        .class(kinds.contains("opaque"), "has-opaque")
        .class(!c.trailing.is_empty(), "trailing-fragment")
        .class(c.msgs.iter().any(|m| m.header.mtype == 15), "has-type-15-frame")
}

fn stream_strategy(max_len: usize) -> impl Strategy<Value = StreamCase> {
    let opts = DrdOpts::framing();
    let len = prop_oneof![
        1 => Just(0usize),
        2 => Just(1usize),
        8 => 2usize..=6,
        4 => 7usize..=24,
        1 => 25usize..=max_len,
    ];
    len.prop_flat_map(move |n| {
        // long streams use small type-31 messages so that the work stays bounded
        let o = if n > 24 { DrdOpts { small: true, ..opts } } else { opts };
        (vec(gen::msg(o), n), vec(any::<u16>(), 0..=64), prop_oneof![2 => Just(Vec::new()), 1 => vec(any::<u8>(), 1..=27)])
    })
    .prop_map(|(msgs, cut_selectors, trailing)| StreamCase { msgs, cut_selectors, trailing })
}

pub fn run(ctx: &Ctx, rep: &mut Report) {
    rep.journal_cases = true;
    rep.trust("independent wire encoder (2432-byte frames, contiguous type-31 layouts) and the C02/C10/C11/C12 comparators");
    rep.assume("type-31 messages are laid out contiguously in pointer order and carry finite floats (PartialEq reflexive), as the statement restricts");
    rep.assume("the Record::messages path is skipped when the generated bytes 4..6 spell 'BZ' (such a record is by definition compressed)");

    // one frame for every type code 0..=255, in one stream, every run
    {
        let strat = (0..=255u8).map(|t| gen::msg_of_type(t, DrdOpts::framing(), None)).collect::<Vec<_>>();
        let msgs: Vec<MsgSpec> = strat.iter().enumerate().map(|(i, s)| crate::runner::draw(s, ctx.seed, "c03-all-types", i)).collect();
        let c = StreamCase { msgs, cut_selectors: vec![1000, 30_000, 60_000], trailing: vec![1, 2, 3] };
        let r = crate::runner::guard(|| check_stream(&c)).unwrap_or_else(|p| Err(Fail::new("panic:oracle-or-code", p)));
        if let Err(f) = r {
            rep.record_failure("streams", f, json!(c));
        }
        rep.enumerated("all-type-codes-stream", "one seeded stream holding one message of every type code 0..=255 in order (each type is one evaluation)", 256, 256, true);
        rep.sample("all-type-codes-stream", json!({"types": "0..=255"}));
    }

    let max_len = ctx.tier.pick(300usize, 600usize);
    rep.prop(
        "streams",
        "proptest: sequences of 0..300 (thorough 600) messages over all type codes (2/5/15/31 boosted; fixed types as 2432-byte frames, type 31 contiguous with finite floats), optional trailing fragment < 28 bytes; oracle = count, per-message spec comparison, equality with stand-alone decoding, Record::messages agreement, and the truncation model at every cut point (streams <= 9000 bytes) or +-40 bytes around selected boundaries plus 64 random points; non-trivial = >= 2 messages of >= 2 kinds with a type-31 message not in last position",
        ctx.tier.pick(20_000, 600_000),
        move || stream_strategy(max_len),
        classify,
        check_stream,
    );
    rep.require_class("streams", "has-type-31", 50);
    rep.require_class("streams", "has-type-5", 20);
    rep.require_class("streams", "has-type-2", 20);
    rep.require_class("streams", "has-opaque", 50);
    rep.require_class("streams", "empty-stream", 3);
    if ctx.tier == Tier::Thorough {
        rep.require_class("streams", "long-stream", 20);
    }
}

pub fn replay(sub: &str, case: &Value) -> Check {
    match sub {
        "streams" => check_stream(&from_case::<StreamCase>(case)?),
        other => super::unknown_sub(other),
    }
}
