//! Known-findings file: /verif/KNOWN_FINDINGS.txt (committed, never written at run time).
//!
//! Line formats:
//!   known: property=<id> sig=<signature> <what fails>
//!   fixed: property=<id> <commit> <what failed>
//! Only `known:` lines suppress anything, and only the exact signature they name.

use crate::runner::verif_root;

#[derive(Clone, Debug)]
pub struct Known {
    pub sig: String,
    pub text: String,
}

pub fn load(property: &str) -> Vec<Known> {
    let path = verif_root().join("KNOWN_FINDINGS.txt");
    let text = match std::fs::read_to_string(path) {
        Ok(t) => t,
        Err(_) => return Vec::new(),
    };
    let mut out = Vec::new();
    for line in text.lines() {
        let line = line.trim();
        let rest = match line.strip_prefix("known:") {
            Some(r) => r.trim(),
            None => continue,
        };
        let mut parts = rest.splitn(3, ' ');
        let prop = parts.next().unwrap_or("");
        let sig = parts.next().unwrap_or("");
        let text = parts.next().unwrap_or("").to_string();
        if prop.strip_prefix("property=") != Some(property) {
            continue;
        }
        if let Some(sig) = sig.strip_prefix("sig=") {
            out.push(Known {
                sig: sig.to_string(),
                text,
            });
        }
    }
    out
}
