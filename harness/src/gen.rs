//! proptest strategies for the wire specs.

use crate::wire::*;
use proptest::collection::vec;
use proptest::prelude::*;
use proptest::sample::Index;

pub fn finite_bits(x: u32) -> u32 {
    if (x >> 23) & 0xFF == 0xFF {
        x & !(1 << 23)
    } else {
        x
    }
}

pub fn float_bits(finite: bool) -> BoxedStrategy<u32> {
    if finite {
        any::<u32>().prop_map(finite_bits).boxed()
    } else {
        prop_oneof![
            8 => any::<u32>(),
            1 => Just(0x7FC0_0000u32),          // NaN
            1 => Just(0x7F80_0000u32),          // +inf
            1 => Just(0xFF80_0000u32),          // -inf
            1 => Just(0x0000_0001u32),          // subnormal
            1 => Just(0x8000_0000u32),          // -0.0
        ]
        .boxed()
    }
}

/// Message type codes: uniform over 0..=255 with 2, 5, 15, 31 boosted.
pub fn type_code() -> impl Strategy<Value = u8> {
    prop_oneof![
        4 => any::<u8>(),
        2 => Just(31u8),
        1 => Just(2u8),
        1 => Just(5u8),
        1 => Just(15u8),
        1 => Just(0u8),
    ]
}

pub fn valid_date() -> impl Strategy<Value = u16> {
    prop_oneof![
        6 => 1u16..=65535,
        1 => Just(1u16),
        1 => Just(65535u16),
        2 => 19000u16..=21000, // 2022-2027
    ]
}

pub fn valid_millis() -> impl Strategy<Value = u32> {
    prop_oneof![
        6 => 0u32..86_400_000,
        1 => Just(0u32),
        1 => Just(86_399_999u32),
    ]
}

pub fn msg_header(mtype: u8, timestamped: Option<bool>) -> impl Strategy<Value = MsgHeaderSpec> {
    let dt = match timestamped {
        Some(true) => (valid_date(), valid_millis()).boxed(),
        Some(false) => Just((0u16, 0u32)).boxed(),
        None => (any::<u16>(), any::<u32>()).boxed(),
    };
    (
        any::<[u8; 12]>(),
        any::<u16>(),
        prop_oneof![Just(0u8), Just(1), Just(2), Just(8), Just(9), Just(10)],
        any::<u16>(),
        dt,
        any::<u16>(),
        any::<u16>(),
    )
        .prop_map(move |(mut rpg, size, channel, seq, (date, time), seg_count, seg_num)| {
            // Input precondition: a record whose bytes 4..6 spell "BZ" is by definition a compressed
            // record (C05), so a message stream that starts a record must not carry "BZ" at bytes 4..6 of
            // its leading 12 channel-terminal-manager bytes (real streams carry zeros there).
            if rpg[4] == b'B' && rpg[5] == b'Z' {
                rpg[5] = b'z';
            }
            MsgHeaderSpec {
            rpg,
            size,
            channel,
            mtype,
            seq,
            date,
            time,
            seg_count,
            seg_num,
            }
        })
        .prop_flat_map(move |h| {
            // degenerate headers: every field zero (apart from the type code and, when the caller asks for a valid
            // time stamp, date/time) - "padding-like" frames are messages too
            let zero = MsgHeaderSpec {
                rpg: [0; 12],
                size: 0,
                channel: 0,
                mtype,
                seq: 0,
                date: if timestamped == Some(true) { h.date } else { 0 },
                time: if timestamped == Some(true) { h.time } else { 0 },
                seg_count: 0,
                seg_num: 0,
            };
            // the variable-length size marker (0xFFFF) with boundary values in the two fields that then carry the size
            let h2 = h.clone();
            let h3 = h.clone();
            prop_oneof![
                28 => Just(h),
                2 => Just(zero),
                1 => Just(MsgHeaderSpec { size: 0xFFFF, seg_count: 0, seg_num: 0, ..h2 }),
                1 => (prop_oneof![Just(0u16), Just(1u16), Just(0xFFFFu16), any::<u16>()], prop_oneof![Just(0u16), Just(1u16), Just(27u16), Just(28u16), Just(29u16), Just(0xFFFFu16), any::<u16>()])
                    .prop_map(move |(c, n)| MsgHeaderSpec { size: 0xFFFF, seg_count: c, seg_num: n, ..h3.clone() }),
            ]
        })
}

#[derive(Clone, Copy, Debug)]
pub struct DrdOpts {
    /// pointer order == physical order and no gaps
    pub contiguous: bool,
    /// floats restricted to finite bit patterns (so PartialEq is reflexive)
    pub finite: bool,
    /// allow the rare very large gate counts
    pub big_gates: bool,
    /// allow 16-bit moments
    pub word16: bool,
    /// date in 1..=65535 and time < 24h
    pub valid_datetime: bool,
    /// small gate counts only (for volumes with many radials)
    pub small: bool,
    /// VCP numbers restricted to the six the code documents
    pub known_vcp: bool,
}

impl DrdOpts {
    pub const fn framing() -> Self {
        DrdOpts {
            contiguous: true,
            finite: true,
            big_gates: false,
            word16: true,
            valid_datetime: false,
            small: false,
            known_vcp: false,
        }
    }
    pub const fn fidelity() -> Self {
        DrdOpts {
            contiguous: false,
            finite: false,
            big_gates: true,
            word16: true,
            valid_datetime: false,
            small: false,
            known_vcp: false,
        }
    }
    pub const fn volume() -> Self {
        DrdOpts {
            contiguous: true,
            finite: true,
            big_gates: false,
            word16: true,
            valid_datetime: true,
            small: true,
            known_vcp: false,
        }
    }
}

pub const KNOWN_VCPS: [u16; 6] = [12, 31, 35, 112, 212, 215];

pub fn drd_header(opts: DrdOpts, elev: BoxedStrategy<u8>) -> impl Strategy<Value = DrdHeaderSpec> {
    let dt = if opts.valid_datetime {
        (valid_date(), valid_millis()).boxed()
    } else {
        (any::<u16>(), any::<u32>()).boxed()
    };
    (
        (any::<[u8; 4]>(), dt, any::<u16>(), float_bits(opts.finite)),
        (any::<u8>(), any::<u8>(), any::<u16>(), any::<u8>(), any::<u8>()),
        (elev, any::<u8>(), float_bits(opts.finite), any::<u8>(), any::<u8>()),
    )
        .prop_map(
            |(
                (radar_id, (date, time), az_num, az_angle_bits),
                (compression, spare, radial_length, az_spacing, status),
                (elev_num, cut_sector, elev_angle_bits, spot, az_index),
            )| DrdHeaderSpec {
                radar_id,
                time,
                date,
                az_num,
                az_angle_bits,
                compression,
                spare,
                radial_length,
                az_spacing,
                status,
                elev_num,
                cut_sector,
                elev_angle_bits,
                spot,
                az_index,
            },
        )
}

pub fn vol_block(opts: DrdOpts) -> impl Strategy<Value = VolSpec> {
    let f = opts.finite;
    let vcp = if opts.known_vcp {
        proptest::sample::select(KNOWN_VCPS.to_vec()).boxed()
    } else {
        prop_oneof![3 => any::<u16>(), 1 => proptest::sample::select(KNOWN_VCPS.to_vec())].boxed()
    };
    (
        (any::<u8>(), any::<u16>(), any::<u8>(), any::<u8>(), float_bits(f), float_bits(f)),
        (any::<i16>(), any::<u16>(), float_bits(f), float_bits(f), float_bits(f), float_bits(f)),
        (float_bits(f), vcp, any::<u16>(), any::<u16>(), any::<[u8; 6]>()),
    )
        .prop_map(
            |(
                (id_type, lrtup, major, minor, lat_bits, lon_bits),
                (site_height, feedhorn, calib_bits, htx_bits, vtx_bits, zdr_bits),
                (phi_bits, vcp, processing, zdr_bias, spare),
            )| VolSpec {
                id_type,
                lrtup,
                major,
                minor,
                lat_bits,
                lon_bits,
                site_height,
                feedhorn,
                calib_bits,
                htx_bits,
                vtx_bits,
                zdr_bits,
                phi_bits,
                vcp,
                processing,
                zdr_bias,
                spare,
            },
        )
}

pub fn elv_block(opts: DrdOpts) -> impl Strategy<Value = ElvSpec> {
    (any::<u8>(), any::<u16>(), any::<i16>(), float_bits(opts.finite)).prop_map(|(id_type, lrtup, atmos, calib_bits)| ElvSpec {
        id_type,
        lrtup,
        atmos,
        calib_bits,
    })
}

pub fn rad_block(opts: DrdOpts) -> impl Strategy<Value = RadSpec> {
    let f = opts.finite;
    (
        (any::<u8>(), any::<u16>(), any::<u16>(), float_bits(f), float_bits(f)),
        (any::<u16>(), any::<u16>(), float_bits(f), float_bits(f)),
    )
        .prop_map(
            |((id_type, lrtup, unamb_range, hnoise_bits, vnoise_bits), (nyquist, flags, hcal_bits, vcal_bits))| RadSpec {
                id_type,
                lrtup,
                unamb_range,
                hnoise_bits,
                vnoise_bits,
                nyquist,
                flags,
                hcal_bits,
                vcal_bits,
            },
        )
}

pub fn gate_count(opts: DrdOpts) -> BoxedStrategy<u16> {
    if opts.small {
        prop_oneof![8 => 0u16..=12, 1 => Just(0u16), 1 => 13u16..=64].boxed()
    } else if opts.big_gates {
        prop_oneof![
            10 => 0u16..=64,
            5 => 65u16..=1840,
            1 => Just(0u16),
            1 => Just(1840u16),
            1 => 1841u16..=65535,
        ]
        .boxed()
    } else {
        prop_oneof![10 => 0u16..=64, 3 => 65u16..=1840, 1 => Just(0u16)].boxed()
    }
}

pub fn moment_block(opts: DrdOpts) -> impl Strategy<Value = MomentSpec> {
    let ws = if opts.word16 {
        prop_oneof![3 => Just(8u8), 1 => Just(16u8)].boxed()
    } else {
        Just(8u8).boxed()
    };
    (gate_count(opts), ws)
        .prop_flat_map(move |(gates, word_size)| {
            let n = gates as usize * (word_size as usize / 8);
            (
                (any::<u8>(), any::<u32>(), any::<u16>(), any::<u16>(), any::<u16>(), any::<u16>()),
                (0u8..=3, float_bits(opts.finite), float_bits(opts.finite)),
                moment_bytes(n),
            )
                .prop_map(
                    move |((id_type, reserved, range, interval, tover, snr), (ctrl, scale_bits, offset_bits), data)| MomentSpec {
                        id_type,
                        reserved,
                        gates,
                        range,
                        interval,
                        tover,
                        snr,
                        ctrl,
                        word_size,
                        scale_bits,
                        offset_bits,
                        data,
                    },
                )
        })
}

/// Gate bytes: for big buffers use a cheap seeded pattern instead of per-byte generation.
pub fn moment_bytes(n: usize) -> BoxedStrategy<Vec<u8>> {
    if n <= 256 {
        vec(any::<u8>(), n).boxed()
    } else {
        (any::<u64>(), vec(any::<u8>(), 16)).prop_map(move |(seed, head)| {
            let mut v = Vec::with_capacity(n);
            v.extend_from_slice(&head);
            let mut x = seed | 1;
            while v.len() < n {
                x ^= x << 13;
                x ^= x >> 7;
                x ^= x << 17;
                v.push((x >> 24) as u8);
            }
            v.truncate(n);
            v
        })
        .boxed()
    }
}

/// A type-31 body spec. `subset` optionally fixes which of the 10 blocks are present (bit i = kind i).
pub fn drd(opts: DrdOpts, elev: BoxedStrategy<u8>, subset: Option<u16>) -> impl Strategy<Value = DrdSpec> {
    let mask = match subset {
        Some(m) => Just(m).boxed(),
        None => prop_oneof![
            6 => any::<u16>().prop_map(|m| m & 0x3FF),
            2 => Just(0x3FFu16),
            1 => Just(0x00Fu16),
            1 => any::<u16>().prop_map(|m| (m & 0x3FF) | 0x001),
        ]
        .boxed(),
    };
    let moment_opt = move |present: bool| -> BoxedStrategy<Option<MomentSpec>> {
        if present {
            moment_block(opts).prop_map(Some).boxed()
        } else {
            Just(None).boxed()
        }
    };
    (drd_header(opts, elev), mask)
        .prop_flat_map(move |(header, mask)| {
            let vol = if mask & 1 != 0 { vol_block(opts).prop_map(Some).boxed() } else { Just(None).boxed() };
            let elv = if mask & 2 != 0 { elv_block(opts).prop_map(Some).boxed() } else { Just(None).boxed() };
            let rad = if mask & 4 != 0 { rad_block(opts).prop_map(Some).boxed() } else { Just(None).boxed() };
            let present: Vec<u8> = (0..10u8).filter(|k| mask & (1 << k) != 0).collect();
            let n = present.len();
            let orders = if opts.contiguous {
                Just(present.clone()).prop_shuffle().prop_map(|p| (p.clone(), p)).boxed()
            } else {
                prop_oneof![
                    1 => Just(present.clone()).prop_map(|p| (p.clone(), p)),
                    1 => Just(present.clone()).prop_shuffle().prop_map(|p| (p.clone(), p)),
                    3 => (Just(present.clone()).prop_shuffle(), Just(present.clone()).prop_shuffle()),
                ]
                .boxed()
            };
            let gaps = if opts.contiguous {
                Just(vec![Vec::new(); n]).boxed()
            } else {
                prop_oneof![
                    1 => Just(vec![Vec::new(); n]),
                    2 => vec(prop_oneof![2 => Just(Vec::new()), 1 => vec(any::<u8>(), 1..=16)], n),
                ]
                .boxed()
            };
            (
                Just(header),
                vol,
                elv,
                rad,
                (
                    moment_opt(mask & 8 != 0),
                    moment_opt(mask & 16 != 0),
                    moment_opt(mask & 32 != 0),
                    moment_opt(mask & 64 != 0),
                    moment_opt(mask & 128 != 0),
                    moment_opt(mask & 256 != 0),
                    moment_opt(mask & 512 != 0),
                ),
                orders,
                gaps,
            )
        })
        .prop_map(|(header, vol, elv, rad, m, (pointer_order, physical_order), gaps)| DrdSpec {
            header,
            vol,
            elv,
            rad,
            moments: [m.0, m.1, m.2, m.3, m.4, m.5, m.6],
            pointer_order,
            physical_order,
            gaps,
        })
        .prop_flat_map(move |d| {
            // degenerate variant: every scalar field of the header and of the VOL/ELV/RAD blocks zero (the elevation
            // number, a valid date-time and a known VCP number are kept where the caller demands them)
            let mut z = d.clone();
            z.header = DrdHeaderSpec {
                radar_id: [0; 4],
                time: if opts.valid_datetime { d.header.time } else { 0 },
                date: if opts.valid_datetime { d.header.date } else { 0 },
                az_num: 0,
                az_angle_bits: 0,
                compression: 0,
                spare: 0,
                radial_length: 0,
                az_spacing: 0,
                status: 0,
                elev_num: d.header.elev_num,
                cut_sector: 0,
                elev_angle_bits: 0,
                spot: 0,
                az_index: 0,
            };
            if let Some(v) = z.vol.as_mut() {
                *v = VolSpec { id_type: 0, lrtup: 0, major: 0, minor: 0, lat_bits: 0, lon_bits: 0, site_height: 0, feedhorn: 0, calib_bits: 0, htx_bits: 0, vtx_bits: 0, zdr_bits: 0, phi_bits: 0, vcp: if opts.known_vcp { v.vcp } else { 0 }, processing: 0, zdr_bias: 0, spare: [0; 6] };
            }
            if let Some(e) = z.elv.as_mut() {
                *e = ElvSpec { id_type: 0, lrtup: 0, atmos: 0, calib_bits: 0 };
            }
            if let Some(r) = z.rad.as_mut() {
                *r = RadSpec { id_type: 0, lrtup: 0, unamb_range: 0, hnoise_bits: 0, vnoise_bits: 0, nyquist: 0, flags: 0, hcal_bits: 0, vcal_bits: 0 };
            }
            prop_oneof![24 => Just(d), 1 => Just(z)]
        })
}

pub fn rda() -> impl Strategy<Value = RdaSpec> {
    prop_oneof![
        14 => vec(any::<u16>(), 60).prop_map(|hw| RdaSpec { hw }),
        // degenerate messages: every halfword zero / every halfword all-ones
        1 => Just(RdaSpec { hw: vec![0; 60] }),
        1 => Just(RdaSpec { hw: vec![0xFFFF; 60] }),
    ]
}

pub fn cut() -> impl Strategy<Value = CutSpec> {
    (
        (any::<u16>(), any::<u8>(), any::<u8>(), any::<u8>(), any::<u8>(), any::<u16>(), any::<u16>()),
        (any::<i16>(), any::<i16>(), any::<i16>(), any::<i16>(), any::<i16>(), any::<i16>()),
        (any::<u16>(), any::<u16>(), any::<u16>(), any::<u16>(), any::<u16>(), any::<u16>()),
        (any::<u16>(), any::<u16>(), any::<u16>(), any::<u16>(), any::<u16>(), any::<u16>()),
    )
        .prop_map(
            |(
                (elevation_angle, channel, waveform, super_res, surv_prf, surv_count, azimuth_rate),
                (ref_thr, vel_thr, sw_thr, zdr_thr, phi_thr, rho_thr),
                (s1_edge, s1_prf, s1_count, supplemental, s2_edge, s2_prf),
                (s2_count, ebc, s3_edge, s3_prf, s3_count, reserved),
            )| CutSpec {
                elevation_angle,
                channel,
                waveform,
                super_res,
                surv_prf,
                surv_count,
                azimuth_rate,
                ref_thr,
                vel_thr,
                sw_thr,
                zdr_thr,
                phi_thr,
                rho_thr,
                s1_edge,
                s1_prf,
                s1_count,
                supplemental,
                s2_edge,
                s2_prf,
                s2_count,
                ebc,
                s3_edge,
                s3_prf,
                s3_count,
                reserved,
            },
        )
}

/// `cut()` with a share of degenerate all-zero cuts.
pub fn cut_or_zero() -> impl Strategy<Value = CutSpec> {
    cut().prop_flat_map(|c| {
        let z = CutSpec {
            elevation_angle: 0, channel: 0, waveform: 0, super_res: 0, surv_prf: 0, surv_count: 0, azimuth_rate: 0,
            ref_thr: 0, vel_thr: 0, sw_thr: 0, zdr_thr: 0, phi_thr: 0, rho_thr: 0,
            s1_edge: 0, s1_prf: 0, s1_count: 0, supplemental: 0, s2_edge: 0, s2_prf: 0, s2_count: 0, ebc: 0,
            s3_edge: 0, s3_prf: 0, s3_count: 0, reserved: 0,
        };
        prop_oneof![19 => Just(c), 1 => Just(z)]
    })
}

/// Realistic cut: channel 0..=3, waveform 0..=6, super-res low bits.
pub fn realistic_cut() -> impl Strategy<Value = CutSpec> {
    (cut(), 0u8..=3, 0u8..=6, 0u8..=15).prop_map(|(mut c, ch, wf, sr)| {
        c.channel = ch;
        c.waveform = wf;
        c.super_res = sr;
        c
    })
}

pub fn vcp_header(declared: u16) -> impl Strategy<Value = VcpHeaderSpec> {
    (
        (any::<u16>(), any::<u16>(), any::<u16>(), any::<u8>(), any::<u8>(), any::<u8>()),
        (any::<u8>(), any::<u32>(), any::<u16>(), any::<u16>(), any::<u16>()),
    )
        .prop_map(
            move |(
                (message_size, pattern_type, pattern_number, version, clutter_group, doppler_res),
                (pulse_width, reserved1, sequencing, supplemental, reserved2),
            )| VcpHeaderSpec {
                message_size,
                pattern_type,
                pattern_number,
                declared_cuts: declared,
                version,
                clutter_group,
                doppler_res,
                pulse_width,
                reserved1,
                sequencing,
                supplemental,
                reserved2,
            },
        )
}

/// A well-formed VCP with k cuts, k drawn from `cuts`.
pub fn vcp(cuts: BoxedStrategy<usize>) -> impl Strategy<Value = VcpSpec> {
    cuts.prop_flat_map(|k| (vcp_header(k as u16), vec(cut_or_zero(), k), 0u8..20))
        .prop_map(|(mut header, cuts, degenerate)| {
            if degenerate == 0 {
                // degenerate header: every field zero except the declared cut count
                header = VcpHeaderSpec { message_size: 0, pattern_type: 0, pattern_number: 0, declared_cuts: header.declared_cuts, version: 0, clutter_group: 0, doppler_res: 0, pulse_width: 0, reserved1: 0, sequencing: 0, supplemental: 0, reserved2: 0 };
            }
            VcpSpec { header, cuts }
        })
}

pub fn vcp_cut_count() -> BoxedStrategy<usize> {
    prop_oneof![4 => 0usize..=51, 1 => Just(0usize), 1 => Just(51usize), 2 => 1usize..=16].boxed()
}

pub fn filler() -> impl Strategy<Value = Vec<u8>> {
    prop_oneof![
        1 => Just(Vec::new()),
        3 => vec(any::<u8>(), 1..=24),
    ]
}

pub fn elevation_any() -> BoxedStrategy<u8> {
    prop_oneof![6 => any::<u8>(), 2 => 1u8..=25, 1 => Just(0u8), 1 => Just(255u8)].boxed()
}

/// A whole message of the given type code.
pub fn msg_of_type(mtype: u8, drd_opts: DrdOpts, timestamped: Option<bool>) -> BoxedStrategy<MsgSpec> {
    let body: BoxedStrategy<BodySpec> = match mtype {
        31 => drd(drd_opts, elevation_any(), None).prop_map(|d| BodySpec::Drd(Box::new(d))).boxed(),
        2 => (rda(), filler()).prop_map(|(r, f)| BodySpec::Rda(r, f)).boxed(),
        5 => (vcp(vcp_cut_count()), filler()).prop_map(|(v, f)| BodySpec::Vcp(v, f)).boxed(),
        _ => filler().prop_map(BodySpec::Opaque).boxed(),
    };
    (msg_header(mtype, timestamped), body)
        .prop_map(|(header, body)| MsgSpec { header, body })
        .boxed()
}

pub fn msg(drd_opts: DrdOpts) -> impl Strategy<Value = MsgSpec> {
    type_code().prop_flat_map(move |t| msg_of_type(t, drd_opts, None))
}

pub fn cfm_zone() -> impl Strategy<Value = (u16, u16)> {
    (prop_oneof![3 => 0u16..=2, 1 => any::<u16>()], any::<u16>())
}

/// Clutter filter map with `segments` elevation segments; zone counts mostly 0..=25.
pub fn cfm(segments: BoxedStrategy<usize>) -> impl Strategy<Value = CfmSpec> {
    (prop_oneof![12 => valid_date().boxed(), 1 => Just(0u16).boxed()], prop_oneof![12 => (0u16..1440).boxed(), 1 => Just(0u16).boxed(), 1 => any::<u16>().boxed()], segments)
        .prop_flat_map(|(date, minutes, s)| {
            // per segment: a base zone-count pattern, cheap to generate for 360 azimuths
            let seg = (vec(0usize..=25, 4), any::<u64>(), vec(cfm_zone(), 8)).prop_map(|(counts, seed, zones)| {
                let mut x = seed | 1;
                let mut azs: Vec<Vec<(u16, u16)>> = Vec::with_capacity(360);
                for a in 0..360usize {
                    x ^= x << 13;
                    x ^= x >> 7;
                    x ^= x << 17;
                    let n = counts[(x >> 33) as usize % counts.len()];
                    let mut z = Vec::with_capacity(n);
                    for i in 0..n {
                        let base = zones[(a + i) % zones.len()];
                        z.push((base.0, base.1.wrapping_add((a * 31 + i) as u16)));
                    }
                    // related neighbours: now and then an azimuth repeats the previous one, is a proper prefix of it, or
                // extends it (decoders that compare or reuse neighbouring zone lists)
                let rel = (x >> 20) % 24;
                if a > 0 && rel < 3 {
                    let prev: Vec<(u16, u16)> = azs[a - 1].clone();
                    z = match rel {
                        0 => prev,
                        1 => prev[..prev.len() / 2 + prev.len() % 2].to_vec(),
                        _ => {
                            let mut e = prev;
                            e.push((2, 511));
                            e
                        }
                    };
                }
                azs.push(z);
                }
                azs
            });
            (Just(date), Just(minutes), vec(seg, s))
        })
        .prop_map(|(date, minutes, segments)| CfmSpec { date, minutes, segments })
}

pub fn vol_header() -> impl Strategy<Value = VolHeaderSpec> {
    let tape = prop_oneof![
        3 => (2u8..=7).prop_map(|v| {
            let mut t = *b"AR2V0006.";
            t[7] = b'0' + v;
            t
        }),
        1 => any::<[u8; 9]>(),
    ];
    let ext = prop_oneof![
        3 => (1u16..=999).prop_map(|n| {
            let s = format!("{:03}", n);
            let b = s.as_bytes();
            [b[0], b[1], b[2]]
        }),
        1 => any::<[u8; 3]>(),
    ];
    let icao = prop_oneof![
        3 => "[A-Z]{4}".prop_map(|s| {
            let b = s.as_bytes();
            [b[0], b[1], b[2], b[3]]
        }),
        1 => any::<[u8; 4]>(),
    ];
    (tape, ext, valid_date(), valid_millis(), icao).prop_map(|(tape, ext, date, time, icao)| VolHeaderSpec {
        tape,
        ext,
        date: date as u32,
        time,
        icao,
    })
}

/// Helper: monotone pick from a slice using a proptest Index.
pub fn pick<'a, T>(items: &'a [T], idx: &Index) -> &'a T {
    &items[idx.index(items.len())]
}
