//! Non-termination observer for the totality properties (C04, C06).
//!
//! A call that never returns cannot be judged by the thread that made it.  Each worker therefore publishes what it
//! is running (label, input bytes, its CPU-time clock) in a slot, and a monitor thread reports a call whose *own
//! thread CPU time* exceeds a budget (default 60 s; every call of these properties on inputs of at most a few MB
//! takes micro- to milliseconds).  CPU time of the calling thread, not wall time: machine load, preemption and a
//! paused process do not count, so this is not a wall-clock oracle.  The monitor then writes the replay file and an
//! evidence file, prints the VIOLATION line and exits 1 (the hung thread cannot be stopped from safe Rust).

use crate::runner::{hash_bytes, verif_root};
use serde_json::json;
use std::sync::atomic::{AtomicU64, Ordering};
use std::sync::{Arc, Mutex, OnceLock};
use std::time::Instant;

pub struct Slot {
    active: bool,
    label: [u8; 64],
    label_len: usize,
    input: Vec<u8>,
    cpu_start_ns: u64,
    clock: libc::clockid_t,
    started: Instant,
}

static SLOTS: OnceLock<Mutex<Vec<Arc<Mutex<Slot>>>>> = OnceLock::new();
pub static CALLS: AtomicU64 = AtomicU64::new(0);
/// conservative distinctness measure for the emergency evidence file: distinct input lengths above 28 bytes seen
static LENGTHS: OnceLock<Vec<std::sync::atomic::AtomicBool>> = OnceLock::new();
static DISTINCT_LENGTHS: AtomicU64 = AtomicU64::new(0);

fn clock_ns(clock: libc::clockid_t) -> u64 {
    let mut ts = libc::timespec { tv_sec: 0, tv_nsec: 0 };
    // SAFETY: plain libc call writing into a local timespec
    let rc = unsafe { libc::clock_gettime(clock, &mut ts) };
    if rc != 0 {
        return 0;
    }
    ts.tv_sec as u64 * 1_000_000_000 + ts.tv_nsec as u64
}

fn my_clock() -> libc::clockid_t {
    let mut c: libc::clockid_t = libc::CLOCK_THREAD_CPUTIME_ID;
    // SAFETY: pthread_self() is always valid for the calling thread
    let rc = unsafe { libc::pthread_getcpuclockid(libc::pthread_self(), &mut c) };
    if rc != 0 {
        libc::CLOCK_THREAD_CPUTIME_ID
    } else {
        c
    }
}

thread_local! {
    static MY: Arc<Mutex<Slot>> = {
        let s = Arc::new(Mutex::new(Slot { active: false, label: [0; 64], label_len: 0, input: Vec::new(), cpu_start_ns: 0, clock: my_clock(), started: Instant::now() }));
        SLOTS.get_or_init(|| Mutex::new(Vec::new())).lock().unwrap_or_else(|e| e.into_inner()).push(s.clone());
        s
    };
}

/// Publish the input the calling thread is about to judge.
pub fn enter(input: &[u8]) {
    CALLS.fetch_add(1, Ordering::Relaxed);
    if input.len() > 28 {
        let seen = LENGTHS.get_or_init(|| (0..65_536).map(|_| std::sync::atomic::AtomicBool::new(false)).collect());
        if !seen[input.len().min(65_535)].swap(true, Ordering::Relaxed) {
            DISTINCT_LENGTHS.fetch_add(1, Ordering::Relaxed);
        }
    }
    MY.with(|m| {
        let mut s = m.lock().unwrap_or_else(|e| e.into_inner());
        s.input.clear();
        s.input.extend_from_slice(&input[..input.len().min(4 << 20)]);
        s.cpu_start_ns = clock_ns(libc::CLOCK_THREAD_CPUTIME_ID);
        s.started = Instant::now();
        s.label_len = 0;
        s.active = true;
    });
}

/// Name the entry point that is about to be called.
pub fn label(what: &str) {
    MY.with(|m| {
        let mut s = m.lock().unwrap_or_else(|e| e.into_inner());
        let n = what.len().min(64);
        s.label[..n].copy_from_slice(&what.as_bytes()[..n]);
        s.label_len = n;
        // the budget is per call
        s.cpu_start_ns = clock_ns(libc::CLOCK_THREAD_CPUTIME_ID);
        s.started = Instant::now();
    });
}

pub fn leave() {
    MY.with(|m| {
        m.lock().unwrap_or_else(|e| e.into_inner()).active = false;
    });
}

pub fn budget_cpu_s() -> u64 {
    std::env::var("VERIF_HANG_CPU_S").ok().and_then(|s| s.parse().ok()).unwrap_or(60)
}

/// Start the monitor.  `tier` / `seed` only label the emergency evidence file.
pub fn spawn_monitor(id: &'static str, tier: &'static str, seed: u64, write_evidence: bool) {
    let t0 = Instant::now();
    std::thread::spawn(move || loop {
        std::thread::sleep(std::time::Duration::from_millis(1500));
        let slots: Vec<Arc<Mutex<Slot>>> = match SLOTS.get() {
            Some(s) => s.lock().unwrap_or_else(|e| e.into_inner()).clone(),
            None => continue,
        };
        for slot in slots {
            let (label, input, cpu_s, wall_s) = {
                let s = slot.lock().unwrap_or_else(|e| e.into_inner());
                if !s.active || s.started.elapsed().as_secs() < 5 {
                    continue;
                }
                let now = clock_ns(s.clock);
                let cpu = now.saturating_sub(s.cpu_start_ns) as f64 / 1e9;
                if cpu < budget_cpu_s() as f64 {
                    continue;
                }
                (String::from_utf8_lossy(&s.label[..s.label_len]).to_string(), s.input.clone(), cpu, s.started.elapsed().as_secs_f64())
            };
            let label = if label.is_empty() { "call".to_string() } else { label };
            let sig = format!("nontermination:{}", label);
            let detail = format!(
                "{} has not returned after {:.0} s of its own thread's CPU time ({:.0} s wall) on a {}-byte input; every other call of this check takes micro- to milliseconds",
                label,
                cpu_s,
                wall_s,
                input.len()
            );
            let doc = json!({"property": id, "sub": "nontermination", "sig": sig, "detail": detail, "case": {"bytes": input}});
            let text = serde_json::to_string_pretty(&doc).unwrap_or_default();
            let dir = verif_root().join("work").join("replay");
            let _ = std::fs::create_dir_all(&dir);
            let path = dir.join(format!("{}-{:016x}.json", id, hash_bytes(text.as_bytes())));
            let _ = std::fs::write(&path, text);
            let calls = CALLS.load(Ordering::Relaxed);
            let evidence = json!({
                "property_id": id, "tier": tier, "seed": seed, "level": "exploration",
                "coverage": {
                    "evaluations": calls, "distinct_nontrivial": DISTINCT_LENGTHS.load(Ordering::Relaxed),
                    "rule": "run ended by the non-termination observer: evaluations = inputs judged until a call exceeded its CPU-time budget; the interrupted run's own non-trivial counters are not available, so distinct_nontrivial is counted conservatively as the number of distinct input lengths above 28 bytes (one message header) seen so far",
                    "samples": [{"sub": "nontermination", "case": {"input_len": input.len(), "head_hex": input.iter().take(48).map(|b| format!("{:02x}", b)).collect::<String>()}}],
                    "exhaustive": false,
                    "violations_detail": [{"sub": "nontermination", "sig": sig, "detail": detail, "replay": path.display().to_string()}],
                },
                "assumptions": ["a call that consumes more than the CPU-time budget (thread CPU time, not wall time) on an input of this size is reported as non-terminating"],
                "wall_s": t0.elapsed().as_secs_f64(),
                "violations": 1,
            });
            if write_evidence && crate::runner::profile_tag().is_none() {
                let ev = verif_root().join("evidence");
                let _ = std::fs::create_dir_all(&ev);
                let _ = std::fs::write(ev.join(format!("{}.json", id)), serde_json::to_string_pretty(&evidence).unwrap_or_default());
            }
            println!("VIOLATION property={} replay={}", id, path.display());
            println!("  sub-check nontermination [{}]: {}", sig, detail);
            println!("{} {} seed={} evaluations={} distinct_nontrivial>=lengths violations=1 wall={:.1}s (run ended by the non-termination observer)", id, tier, seed, calls, t0.elapsed().as_secs_f64());
            std::process::exit(1);
        }
    });
}
