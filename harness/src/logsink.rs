//! Environment dimension "a logger is installed": the crates under test log through the `log` facade, whose
//! macros evaluate their arguments only when the level is enabled. An application that installs a logger at
//! Trace level therefore runs code (argument expressions, Display/Debug impls of the values logged) that a
//! process without a logger -- the repository's test suite, for one -- never runs. The sink below accepts
//! every record and formats it into a counting writer, like env_logger would, but keeps nothing.
//!
//! Level: env VERIF_LOG = off | error | warn | info | debug | trace (default trace). The driver runs the
//! second (`nodebug`) build with VERIF_LOG=off, so both environments are exercised for those properties.

use std::fmt::Write;
use std::sync::atomic::{AtomicU64, Ordering};

pub static RECORDS: AtomicU64 = AtomicU64::new(0);
pub static BYTES: AtomicU64 = AtomicU64::new(0);

struct Count(u64);
impl Write for Count {
    fn write_str(&mut self, s: &str) -> std::fmt::Result {
        self.0 += s.len() as u64;
        Ok(())
    }
}

struct Sink;
impl log::Log for Sink {
    fn enabled(&self, _: &log::Metadata) -> bool {
        true
    }
    fn log(&self, record: &log::Record) {
        let mut c = Count(0);
        let _ = write!(c, "{} {} {}", record.level(), record.target(), record.args());
        RECORDS.fetch_add(1, Ordering::Relaxed);
        BYTES.fetch_add(c.0, Ordering::Relaxed);
    }
    fn flush(&self) {}
}

static SINK: Sink = Sink;

pub fn level_name() -> String {
    std::env::var("VERIF_LOG").unwrap_or_else(|_| "trace".to_string()).to_lowercase()
}

pub fn install_from_env() {
    let level = match level_name().as_str() {
        "off" => log::LevelFilter::Off,
        "error" => log::LevelFilter::Error,
        "warn" => log::LevelFilter::Warn,
        "info" => log::LevelFilter::Info,
        "debug" => log::LevelFilter::Debug,
        _ => log::LevelFilter::Trace,
    };
    if log::set_logger(&SINK).is_ok() {
        log::set_max_level(level);
    }
}
