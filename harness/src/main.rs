#![allow(dead_code)]
//! nexrad-verif: property-based / enumeration checks for properties C01..C20 of danielway/nexrad.
//!
//! usage: nexrad-verif <ID> <quick|thorough> [--replay <file>]
//! exit 0 = property held on everything explored; 1 = VIOLATION; 2 = inconclusive (never a violation)

use nexrad_verif::runner::{Ctx, Report, Tier};
use nexrad_verif::{alloc, props, runner, wire};

#[global_allocator]
static GLOBAL: alloc::Counting = alloc::Counting;

fn main() {
    let args: Vec<String> = std::env::args().collect();
    if args.len() < 3 {
        eprintln!("usage: nexrad-verif <ID> <quick|thorough> [--replay <file>]");
        std::process::exit(2);
    }
    let id = args[1].to_uppercase();
    // fuzz-support subcommands: <ID> corpus <dir> | artifact <file> | classify <dir>
    if matches!(args[2].as_str(), "corpus" | "artifact" | "classify") {
        runner::install_panic_hook();
        if id == "C04" || id == "C06" {
            nexrad_verif::hang::spawn_monitor(if id == "C04" { "C04" } else { "C06" }, "thorough", 0, false);
        }
        let seed: u64 = std::env::var("VERIF_SEED").ok().and_then(|s| s.trim().parse::<i128>().ok()).map(|v| v as u64).unwrap_or(0);
        let path = std::path::PathBuf::from(args.get(3).cloned().unwrap_or_default());
        std::process::exit(props::fuzz_support::run(&id, &args[2], &path, seed));
    }
    let tier = match args[2].as_str() {
        "quick" => Tier::Quick,
        "thorough" => Tier::Thorough,
        other => {
            eprintln!("unknown tier {}", other);
            std::process::exit(2);
        }
    };
    let replay = args
        .iter()
        .position(|a| a == "--replay")
        .and_then(|i| args.get(i + 1))
        .map(std::path::PathBuf::from);
    let seed: u64 = std::env::var("VERIF_SEED")
        .ok()
        .and_then(|s| s.trim().parse::<i128>().ok())
        .map(|v| v as u64)
        .unwrap_or(0);
    let threads: usize = std::env::var("VERIF_THREADS")
        .ok()
        .and_then(|s| s.parse().ok())
        .unwrap_or_else(|| std::thread::available_parallelism().map(|n| n.get()).unwrap_or(4).min(16));

    let entry = match props::lookup(&id) {
        Some(e) => e,
        None => {
            eprintln!("unknown property {}", id);
            std::process::exit(2);
        }
    };

    runner::install_panic_hook();
    if let Err(e) = wire::self_check() {
        eprintln!("INCONCLUSIVE encoder self-check failed: {}", e);
        std::process::exit(2);
    }

    // watchdog: a run that exceeds its wall budget is inconclusive, never a violation
    let budget_s: u64 = std::env::var("VERIF_WATCHDOG_S")
        .ok()
        .and_then(|s| s.parse().ok())
        .unwrap_or(match tier {
            Tier::Quick => 900,
            Tier::Thorough => 4 * 3600,
        });
    let id_static = entry.id;
    std::thread::spawn(move || {
        std::thread::sleep(std::time::Duration::from_secs(budget_s));
        println!("INCONCLUSIVE property={} watchdog expired after {} s", id_static, budget_s);
        std::process::exit(2);
    });

    nexrad_verif::journal::install(entry.id, "nontermination");
    if entry.id == "C04" || entry.id == "C06" {
        nexrad_verif::hang::spawn_monitor(entry.id, if tier == Tier::Quick { "quick" } else { "thorough" }, seed, replay.is_none());
    }
    // the second (nodebug) build explores different cases than the main build: derived seed
    let seed = if runner::profile_tag().is_some() { seed ^ 0x5DEE_CE66_D000_0001 } else { seed };
    let ctx = Ctx {
        id: entry.id,
        tier,
        seed,
        threads,
    };

    if let Some(path) = replay {
        let (prop, sub, case) = match runner::load_replay(&path) {
            Ok(x) => x,
            Err(e) => {
                eprintln!("{}", e);
                std::process::exit(2);
            }
        };
        if !prop.is_empty() && prop != entry.id {
            eprintln!("replay file is for property {}, not {}", prop, entry.id);
            std::process::exit(2);
        }
        let outcome = match runner::guard(|| (entry.replay)(&sub, &case)) {
            Ok(r) => r,
            Err(p) => Err(runner::Fail::new("panic:oracle-or-code", p)),
        };
        match outcome {
            Ok(()) => {
                println!("replay of {} [{}]: property holds on this case", path.display(), sub);
                std::process::exit(0);
            }
            Err(f) => {
                if f.sig == "replay-format" || f.sig == "replay-unknown-sub" {
                    eprintln!("{}", f.detail);
                    std::process::exit(2);
                }
                println!("VIOLATION property={} replay={}", entry.id, path.display());
                println!("  sub-check {} [{}]: {}", sub, f.sig, runner::truncate(&f.detail, 2000));
                std::process::exit(1);
            }
        }
    }

    let mut rep = Report::new(ctx.clone());
    props::replay_committed(&ctx, entry, &mut rep);
    (entry.run)(&ctx, &mut rep);
    let code = rep.finish();
    std::process::exit(code);
}
