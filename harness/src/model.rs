//! Closed-form reference arithmetic and small reference models, written from the property text.

/// (d - 1) days + ms since the Unix epoch, in milliseconds.
pub fn epoch_millis(day_count: u16, millis: u64) -> i64 {
    (day_count as i64 - 1) * 86_400_000 + millis as i64
}

/// Howard Hinnant's civil_from_days: days since 1970-01-01 -> (year, month, day).
pub fn civil_from_days(z: i64) -> (i64, u32, u32) {
    let z = z + 719_468;
    let era = if z >= 0 { z } else { z - 146_096 } / 146_097;
    let doe = (z - era * 146_097) as u64; // [0, 146096]
    let yoe = (doe - doe / 1460 + doe / 36_524 - doe / 146_096) / 365; // [0, 399]
    let y = yoe as i64 + era * 400;
    let doy = doe - (365 * yoe + yoe / 4 - yoe / 100); // [0, 365]
    let mp = (5 * doy + 2) / 153; // [0, 11]
    let d = (doy - (153 * mp + 2) / 5 + 1) as u32; // [1, 31]
    let m = if mp < 10 { mp + 3 } else { mp - 9 } as u32; // [1, 12]
    (if m <= 2 { y + 1 } else { y }, m, d)
}

/// Broken-down UTC fields of an epoch-millisecond instant (no chrono involved).
#[derive(Debug, PartialEq, Eq, Clone, Copy)]
pub struct Civil {
    pub year: i64,
    pub month: u32,
    pub day: u32,
    pub hour: u32,
    pub minute: u32,
    pub second: u32,
    pub milli: u32,
}

pub fn civil_from_millis(ms: i64) -> Civil {
    let days = ms.div_euclid(86_400_000);
    let rem = ms.rem_euclid(86_400_000) as u64;
    let (year, month, day) = civil_from_days(days);
    Civil {
        year,
        month,
        day,
        hour: (rem / 3_600_000) as u32,
        minute: (rem / 60_000 % 60) as u32,
        second: (rem / 1000 % 60) as u32,
        milli: (rem % 1000) as u32,
    }
}

pub fn civil_of(dt: &chrono::DateTime<chrono::Utc>) -> Civil {
    use chrono::{Datelike, Timelike};
    Civil {
        year: dt.year() as i64,
        month: dt.month(),
        day: dt.day(),
        hour: dt.hour(),
        minute: dt.minute(),
        second: dt.second(),
        milli: dt.timestamp_subsec_millis(),
    }
}

/// ICD table III-A angle: (raw >> 3) * 180 / 4096 degrees.
pub fn icd_angle(raw: u16) -> f64 {
    (raw >> 3) as f64 * 180.0 / 4096.0
}

/// ICD table XI-D azimuth rate: ((raw >> 3) & 0xFFF) * 22.5 / 2048 deg/s, negated when bit 15 set.
pub fn icd_rate(raw: u16) -> f64 {
    let mag = ((raw >> 3) & 0x0FFF) as f64 * 22.5 / 2048.0;
    if raw & 0x8000 != 0 {
        -mag
    } else {
        mag
    }
}

pub fn rel_close(a: f64, b: f64, tol: f64) -> bool {
    if a == b {
        return true;
    }
    if a.is_nan() || b.is_nan() {
        return a.is_nan() && b.is_nan();
    }
    let scale = a.abs().max(b.abs());
    (a - b).abs() <= tol * scale
}

/// Successor of a (volume, sequence) position in the rotating real-time bucket.
pub fn successor(volume: usize, sequence: usize) -> (usize, usize) {
    if sequence < 55 {
        (volume, sequence + 1)
    } else {
        (volume % 999 + 1, 1)
    }
}

/// Maximal runs of equal keys: returns (key, start, end_exclusive).
pub fn runs<K: PartialEq + Copy>(keys: &[K]) -> Vec<(K, usize, usize)> {
    let mut out = Vec::new();
    let mut i = 0;
    while i < keys.len() {
        let mut j = i + 1;
        while j < keys.len() && keys[j] == keys[i] {
            j += 1;
        }
        out.push((keys[i], i, j));
        i = j;
    }
    out
}

#[cfg(test)]
mod tests {
    use super::*;
    #[test]
    fn civil() {
        assert_eq!(civil_from_days(0), (1970, 1, 1));
        assert_eq!(civil_from_days(11_016), (2000, 2, 29));
        assert_eq!(civil_from_days(19_723), (2024, 1, 1));
    }
}

/// Howard Hinnant's days_from_civil: (y, m, d) -> days since 1970-01-01.
pub fn days_from_civil(y: i64, m: u32, d: u32) -> i64 {
    let y = if m <= 2 { y - 1 } else { y };
    let era = if y >= 0 { y } else { y - 399 } / 400;
    let yoe = (y - era * 400) as u64;
    let mp = if m > 2 { m - 3 } else { m + 9 } as u64;
    let doy = (153 * mp + 2) / 5 + d as u64 - 1;
    let doe = yoe * 365 + yoe / 4 - yoe / 100 + doy;
    era * 146_097 + doe as i64 - 719_468
}

pub fn days_in_month(y: i64, m: u32) -> u32 {
    match m {
        1 | 3 | 5 | 7 | 8 | 10 | 12 => 31,
        4 | 6 | 9 | 11 => 30,
        _ => {
            if (y % 4 == 0 && y % 100 != 0) || y % 400 == 0 {
                29
            } else {
                28
            }
        }
    }
}
