//! Independent wire encoder for the ICD 2620002W / 2620010H structures the repository decodes.
//!
//! Every field is written at a literal byte offset with hand-written big-endian stores.  Nothing
//! here uses serde layouts, `#[repr(C)]` structs or any type of the code under test, so a
//! transposed pair of same-typed fields, a changed width, a little-endian read or a changed pointer
//! base in the implementation disagrees with this encoder.  It is the trusted base of the
//! decode-side oracles.

use serde::{Deserialize, Serialize};

pub const FRAME_LEN: usize = 2432;
pub const MSG_HEADER_LEN: usize = 28;
pub const FRAME_BODY_LEN: usize = FRAME_LEN - MSG_HEADER_LEN; // 2404

#[inline]
pub fn put8(b: &mut [u8], off: usize, v: u8) {
    b[off] = v;
}
#[inline]
pub fn put16(b: &mut [u8], off: usize, v: u16) {
    b[off] = (v >> 8) as u8;
    b[off + 1] = v as u8;
}
#[inline]
pub fn put32(b: &mut [u8], off: usize, v: u32) {
    b[off] = (v >> 24) as u8;
    b[off + 1] = (v >> 16) as u8;
    b[off + 2] = (v >> 8) as u8;
    b[off + 3] = v as u8;
}

// ---------------------------------------------------------------------------------------------
// Message header (28 bytes: 12 RPG bytes + 16-byte ICD header)
// ---------------------------------------------------------------------------------------------

#[derive(Clone, Debug, PartialEq, Eq, Serialize, Deserialize)]
pub struct MsgHeaderSpec {
    pub rpg: [u8; 12],
    pub size: u16,
    pub channel: u8,
    pub mtype: u8,
    pub seq: u16,
    pub date: u16,
    pub time: u32,
    pub seg_count: u16,
    pub seg_num: u16,
}

impl MsgHeaderSpec {
    pub fn encode(&self) -> [u8; 28] {
        let mut b = [0u8; 28];
        b[0..12].copy_from_slice(&self.rpg);
        put16(&mut b, 12, self.size);
        put8(&mut b, 14, self.channel);
        put8(&mut b, 15, self.mtype);
        put16(&mut b, 16, self.seq);
        put16(&mut b, 18, self.date);
        put32(&mut b, 20, self.time);
        put16(&mut b, 24, self.seg_count);
        put16(&mut b, 26, self.seg_num);
        b
    }
}

// ---------------------------------------------------------------------------------------------
// Type 31: digital radar data
// ---------------------------------------------------------------------------------------------

pub const BLOCK_NAMES: [&[u8; 3]; 10] = [
    b"VOL", b"ELV", b"RAD", b"REF", b"VEL", b"SW ", b"ZDR", b"PHI", b"RHO", b"CFP",
];
/// Index into BLOCK_NAMES: 0 VOL, 1 ELV, 2 RAD, 3.. the seven moments.
pub type BlockKind = u8;
pub const VOL: BlockKind = 0;
pub const ELV: BlockKind = 1;
pub const RAD: BlockKind = 2;
pub const MOMENT0: BlockKind = 3;
pub const MOMENT_LABELS: [&str; 7] = ["REF", "VEL", "SW", "ZDR", "PHI", "RHO", "CFP"];

#[derive(Clone, Debug, PartialEq, Eq, Serialize, Deserialize)]
pub struct DrdHeaderSpec {
    pub radar_id: [u8; 4],
    pub time: u32,
    pub date: u16,
    pub az_num: u16,
    pub az_angle_bits: u32,
    pub compression: u8,
    pub spare: u8,
    pub radial_length: u16,
    pub az_spacing: u8,
    pub status: u8,
    pub elev_num: u8,
    pub cut_sector: u8,
    pub elev_angle_bits: u32,
    pub spot: u8,
    pub az_index: u8,
}

impl DrdHeaderSpec {
    pub fn encode(&self, block_count: u16) -> [u8; 32] {
        let mut b = [0u8; 32];
        b[0..4].copy_from_slice(&self.radar_id);
        put32(&mut b, 4, self.time);
        put16(&mut b, 8, self.date);
        put16(&mut b, 10, self.az_num);
        put32(&mut b, 12, self.az_angle_bits);
        put8(&mut b, 16, self.compression);
        put8(&mut b, 17, self.spare);
        put16(&mut b, 18, self.radial_length);
        put8(&mut b, 20, self.az_spacing);
        put8(&mut b, 21, self.status);
        put8(&mut b, 22, self.elev_num);
        put8(&mut b, 23, self.cut_sector);
        put32(&mut b, 24, self.elev_angle_bits);
        put8(&mut b, 28, self.spot);
        put8(&mut b, 29, self.az_index);
        put16(&mut b, 30, block_count);
        b
    }
}

#[derive(Clone, Debug, PartialEq, Eq, Serialize, Deserialize)]
pub struct VolSpec {
    pub id_type: u8,
    pub lrtup: u16,
    pub major: u8,
    pub minor: u8,
    pub lat_bits: u32,
    pub lon_bits: u32,
    pub site_height: i16,
    pub feedhorn: u16,
    pub calib_bits: u32,
    pub htx_bits: u32,
    pub vtx_bits: u32,
    pub zdr_bits: u32,
    pub phi_bits: u32,
    pub vcp: u16,
    pub processing: u16,
    pub zdr_bias: u16,
    pub spare: [u8; 6],
}

impl VolSpec {
    pub fn encode(&self) -> Vec<u8> {
        let mut b = vec![0u8; 52];
        b[0] = self.id_type;
        b[1..4].copy_from_slice(b"VOL");
        put16(&mut b, 4, self.lrtup);
        put8(&mut b, 6, self.major);
        put8(&mut b, 7, self.minor);
        put32(&mut b, 8, self.lat_bits);
        put32(&mut b, 12, self.lon_bits);
        put16(&mut b, 16, self.site_height as u16);
        put16(&mut b, 18, self.feedhorn);
        put32(&mut b, 20, self.calib_bits);
        put32(&mut b, 24, self.htx_bits);
        put32(&mut b, 28, self.vtx_bits);
        put32(&mut b, 32, self.zdr_bits);
        put32(&mut b, 36, self.phi_bits);
        put16(&mut b, 40, self.vcp);
        put16(&mut b, 42, self.processing);
        put16(&mut b, 44, self.zdr_bias);
        b[46..52].copy_from_slice(&self.spare);
        b
    }
}

#[derive(Clone, Debug, PartialEq, Eq, Serialize, Deserialize)]
pub struct ElvSpec {
    pub id_type: u8,
    pub lrtup: u16,
    pub atmos: i16,
    pub calib_bits: u32,
}

impl ElvSpec {
    pub fn encode(&self) -> Vec<u8> {
        let mut b = vec![0u8; 12];
        b[0] = self.id_type;
        b[1..4].copy_from_slice(b"ELV");
        put16(&mut b, 4, self.lrtup);
        put16(&mut b, 6, self.atmos as u16);
        put32(&mut b, 8, self.calib_bits);
        b
    }
}

#[derive(Clone, Debug, PartialEq, Eq, Serialize, Deserialize)]
pub struct RadSpec {
    pub id_type: u8,
    pub lrtup: u16,
    pub unamb_range: u16,
    pub hnoise_bits: u32,
    pub vnoise_bits: u32,
    pub nyquist: u16,
    pub flags: u16,
    pub hcal_bits: u32,
    pub vcal_bits: u32,
}

impl RadSpec {
    pub fn encode(&self) -> Vec<u8> {
        let mut b = vec![0u8; 28];
        b[0] = self.id_type;
        b[1..4].copy_from_slice(b"RAD");
        put16(&mut b, 4, self.lrtup);
        put16(&mut b, 6, self.unamb_range);
        put32(&mut b, 8, self.hnoise_bits);
        put32(&mut b, 12, self.vnoise_bits);
        put16(&mut b, 16, self.nyquist);
        put16(&mut b, 18, self.flags);
        put32(&mut b, 20, self.hcal_bits);
        put32(&mut b, 24, self.vcal_bits);
        b
    }
}

#[derive(Clone, Debug, PartialEq, Eq, Serialize, Deserialize)]
pub struct MomentSpec {
    pub id_type: u8,
    pub reserved: u32,
    pub gates: u16,
    pub range: u16,
    pub interval: u16,
    pub tover: u16,
    pub snr: u16,
    pub ctrl: u8,
    pub word_size: u8,
    pub scale_bits: u32,
    pub offset_bits: u32,
    /// gate bytes, `gates * word_size / 8` of them for a well-formed block
    pub data: Vec<u8>,
}

impl MomentSpec {
    pub fn expected_len(&self) -> usize {
        self.gates as usize * (self.word_size as usize / 8)
    }
    pub fn encode(&self, name: &[u8; 3]) -> Vec<u8> {
        let mut b = vec![0u8; 28 + self.data.len()];
        b[0] = self.id_type;
        b[1..4].copy_from_slice(name);
        put32(&mut b, 4, self.reserved);
        put16(&mut b, 8, self.gates);
        put16(&mut b, 10, self.range);
        put16(&mut b, 12, self.interval);
        put16(&mut b, 14, self.tover);
        put16(&mut b, 16, self.snr);
        put8(&mut b, 18, self.ctrl);
        put8(&mut b, 19, self.word_size);
        put32(&mut b, 20, self.scale_bits);
        put32(&mut b, 24, self.offset_bits);
        b[28..].copy_from_slice(&self.data);
        b
    }
}

#[derive(Clone, Debug, PartialEq, Eq, Serialize, Deserialize)]
pub struct DrdSpec {
    pub header: DrdHeaderSpec,
    pub vol: Option<VolSpec>,
    pub elv: Option<ElvSpec>,
    pub rad: Option<RadSpec>,
    /// REF, VEL, SW, ZDR, PHI, RHO, CFP
    pub moments: [Option<MomentSpec>; 7],
    /// order of the pointer table (a permutation of the present block kinds)
    pub pointer_order: Vec<BlockKind>,
    /// physical order of the blocks in the body (a permutation of the present block kinds)
    pub physical_order: Vec<BlockKind>,
    /// junk bytes placed immediately before each block, indexed like `physical_order`
    pub gaps: Vec<Vec<u8>>,
}

impl DrdSpec {
    pub fn present(&self) -> Vec<BlockKind> {
        let mut v = Vec::new();
        if self.vol.is_some() {
            v.push(VOL);
        }
        if self.elv.is_some() {
            v.push(ELV);
        }
        if self.rad.is_some() {
            v.push(RAD);
        }
        for (i, m) in self.moments.iter().enumerate() {
            if m.is_some() {
                v.push(MOMENT0 + i as u8);
            }
        }
        v
    }

    pub fn is_contiguous(&self) -> bool {
        self.pointer_order == self.physical_order && self.gaps.iter().all(|g| g.is_empty())
    }

    fn encode_block(&self, kind: BlockKind) -> Vec<u8> {
        match kind {
            VOL => self.vol.as_ref().map(|b| b.encode()).unwrap_or_default(),
            ELV => self.elv.as_ref().map(|b| b.encode()).unwrap_or_default(),
            RAD => self.rad.as_ref().map(|b| b.encode()).unwrap_or_default(),
            k => self.moments[(k - MOMENT0) as usize]
                .as_ref()
                .map(|b| b.encode(BLOCK_NAMES[k as usize]))
                .unwrap_or_default(),
        }
    }

    /// Encodes the message body (everything after the 28-byte message header).  Pointers are byte
    /// offsets from the first byte of the body (the type-31 header), as the ICD defines them.
    pub fn encode_body(&self) -> Vec<u8> {
        let n = self.pointer_order.len();
        let mut body = vec![0u8; 32 + 4 * n];
        body[0..32].copy_from_slice(&self.header.encode(n as u16));
        let mut offsets = [0u32; 10];
        for (i, kind) in self.physical_order.iter().enumerate() {
            if let Some(g) = self.gaps.get(i) {
                body.extend_from_slice(g);
            }
            offsets[*kind as usize] = body.len() as u32;
            body.extend_from_slice(&self.encode_block(*kind));
        }
        for (i, kind) in self.pointer_order.iter().enumerate() {
            put32(&mut body, 32 + 4 * i, offsets[*kind as usize]);
        }
        body
    }
}

// ---------------------------------------------------------------------------------------------
// Type 2: RDA status data (60 halfwords)
// ---------------------------------------------------------------------------------------------

#[derive(Clone, Debug, PartialEq, Eq, Serialize, Deserialize)]
pub struct RdaSpec {
    pub hw: Vec<u16>, // exactly 60
}

impl RdaSpec {
    pub fn encode(&self) -> Vec<u8> {
        let mut b = vec![0u8; 120];
        for i in 1..=60usize {
            // halfword i of ICD Table IV lives at byte offset 2*(i-1)
            put16(&mut b, 2 * (i - 1), self.hw[i - 1]);
        }
        b
    }
}

// ---------------------------------------------------------------------------------------------
// Type 5: volume coverage pattern
// ---------------------------------------------------------------------------------------------

#[derive(Clone, Debug, PartialEq, Eq, Serialize, Deserialize)]
pub struct VcpHeaderSpec {
    pub message_size: u16,
    pub pattern_type: u16,
    pub pattern_number: u16,
    /// the *declared* cut count (may differ from cuts.len() in malformed inputs)
    pub declared_cuts: u16,
    pub version: u8,
    pub clutter_group: u8,
    pub doppler_res: u8,
    pub pulse_width: u8,
    pub reserved1: u32,
    pub sequencing: u16,
    pub supplemental: u16,
    pub reserved2: u16,
}

#[derive(Clone, Debug, PartialEq, Eq, Serialize, Deserialize)]
pub struct CutSpec {
    pub elevation_angle: u16,
    pub channel: u8,
    pub waveform: u8,
    pub super_res: u8,
    pub surv_prf: u8,
    pub surv_count: u16,
    pub azimuth_rate: u16,
    pub ref_thr: i16,
    pub vel_thr: i16,
    pub sw_thr: i16,
    pub zdr_thr: i16,
    pub phi_thr: i16,
    pub rho_thr: i16,
    pub s1_edge: u16,
    pub s1_prf: u16,
    pub s1_count: u16,
    pub supplemental: u16,
    pub s2_edge: u16,
    pub s2_prf: u16,
    pub s2_count: u16,
    pub ebc: u16,
    pub s3_edge: u16,
    pub s3_prf: u16,
    pub s3_count: u16,
    pub reserved: u16,
}

impl CutSpec {
    pub fn encode(&self) -> [u8; 46] {
        let mut b = [0u8; 46];
        put16(&mut b, 0, self.elevation_angle);
        put8(&mut b, 2, self.channel);
        put8(&mut b, 3, self.waveform);
        put8(&mut b, 4, self.super_res);
        put8(&mut b, 5, self.surv_prf);
        put16(&mut b, 6, self.surv_count);
        put16(&mut b, 8, self.azimuth_rate);
        put16(&mut b, 10, self.ref_thr as u16);
        put16(&mut b, 12, self.vel_thr as u16);
        put16(&mut b, 14, self.sw_thr as u16);
        put16(&mut b, 16, self.zdr_thr as u16);
        put16(&mut b, 18, self.phi_thr as u16);
        put16(&mut b, 20, self.rho_thr as u16);
        put16(&mut b, 22, self.s1_edge);
        put16(&mut b, 24, self.s1_prf);
        put16(&mut b, 26, self.s1_count);
        put16(&mut b, 28, self.supplemental);
        put16(&mut b, 30, self.s2_edge);
        put16(&mut b, 32, self.s2_prf);
        put16(&mut b, 34, self.s2_count);
        put16(&mut b, 36, self.ebc);
        put16(&mut b, 38, self.s3_edge);
        put16(&mut b, 40, self.s3_prf);
        put16(&mut b, 42, self.s3_count);
        put16(&mut b, 44, self.reserved);
        b
    }
}

#[derive(Clone, Debug, PartialEq, Eq, Serialize, Deserialize)]
pub struct VcpSpec {
    pub header: VcpHeaderSpec,
    pub cuts: Vec<CutSpec>,
}

impl VcpSpec {
    pub fn encode(&self) -> Vec<u8> {
        let mut b = vec![0u8; 22];
        let h = &self.header;
        put16(&mut b, 0, h.message_size);
        put16(&mut b, 2, h.pattern_type);
        put16(&mut b, 4, h.pattern_number);
        put16(&mut b, 6, h.declared_cuts);
        put8(&mut b, 8, h.version);
        put8(&mut b, 9, h.clutter_group);
        put8(&mut b, 10, h.doppler_res);
        put8(&mut b, 11, h.pulse_width);
        put32(&mut b, 12, h.reserved1);
        put16(&mut b, 16, h.sequencing);
        put16(&mut b, 18, h.supplemental);
        put16(&mut b, 20, h.reserved2);
        for c in &self.cuts {
            b.extend_from_slice(&c.encode());
        }
        b
    }
}

// ---------------------------------------------------------------------------------------------
// Type 15: clutter filter map
// ---------------------------------------------------------------------------------------------

#[derive(Clone, Debug, PartialEq, Eq, Serialize, Deserialize)]
pub struct CfmSpec {
    pub date: u16,
    pub minutes: u16,
    /// segments[s][a] = list of (op_code, end_range) zones; every segment has 360 azimuths
    pub segments: Vec<Vec<Vec<(u16, u16)>>>,
}

impl CfmSpec {
    pub fn encode(&self) -> Vec<u8> {
        let mut b = vec![0u8; 6];
        put16(&mut b, 0, self.date);
        put16(&mut b, 2, self.minutes);
        put16(&mut b, 4, self.segments.len() as u16);
        for seg in &self.segments {
            for az in seg {
                let o = b.len();
                b.extend_from_slice(&[0, 0]);
                put16(&mut b, o, az.len() as u16);
                for (op, end) in az {
                    let o = b.len();
                    b.extend_from_slice(&[0, 0, 0, 0]);
                    put16(&mut b, o, *op);
                    put16(&mut b, o + 2, *end);
                }
            }
        }
        b
    }
    /// byte offsets at which an (elevation, azimuth) segment starts
    pub fn azimuth_boundaries(&self) -> Vec<usize> {
        let mut v = Vec::new();
        let mut o = 6;
        for seg in &self.segments {
            for az in seg {
                v.push(o);
                o += 2 + 4 * az.len();
            }
        }
        v.push(o);
        v
    }
}

// ---------------------------------------------------------------------------------------------
// Whole messages and streams
// ---------------------------------------------------------------------------------------------

#[derive(Clone, Debug, PartialEq, Eq, Serialize, Deserialize)]
pub enum BodySpec {
    Drd(Box<DrdSpec>),
    Rda(RdaSpec, Vec<u8>),  // 120 structured bytes + filler seed bytes repeated over the frame
    Vcp(VcpSpec, Vec<u8>),
    Opaque(Vec<u8>),        // filler pattern repeated over the 2404-byte frame body
}

#[derive(Clone, Debug, PartialEq, Eq, Serialize, Deserialize)]
pub struct MsgSpec {
    pub header: MsgHeaderSpec,
    pub body: BodySpec,
}

fn fill_frame(mut prefix: Vec<u8>, pattern: &[u8]) -> Vec<u8> {
    let mut i = 0usize;
    while prefix.len() < FRAME_BODY_LEN {
        let v = if pattern.is_empty() { 0 } else { pattern[i % pattern.len()] };
        prefix.push(v);
        i += 1;
    }
    prefix.truncate(FRAME_BODY_LEN);
    prefix
}

impl MsgSpec {
    pub fn encode(&self) -> Vec<u8> {
        let mut out = self.header.encode().to_vec();
        match &self.body {
            BodySpec::Drd(d) => out.extend_from_slice(&d.encode_body()),
            BodySpec::Rda(r, fill) => out.extend_from_slice(&fill_frame(r.encode(), fill)),
            BodySpec::Vcp(v, fill) => out.extend_from_slice(&fill_frame(v.encode(), fill)),
            BodySpec::Opaque(fill) => out.extend_from_slice(&fill_frame(Vec::new(), fill)),
        }
        out
    }
    pub fn kind(&self) -> &'static str {
        match &self.body {
            BodySpec::Drd(_) => "drd",
            BodySpec::Rda(..) => "rda",
            BodySpec::Vcp(..) => "vcp",
            BodySpec::Opaque(_) => "opaque",
        }
    }
}

pub fn encode_stream(msgs: &[MsgSpec]) -> (Vec<u8>, Vec<usize>) {
    let mut out = Vec::new();
    let mut bounds = vec![0usize];
    for m in msgs {
        out.extend_from_slice(&m.encode());
        bounds.push(out.len());
    }
    (out, bounds)
}

// ---------------------------------------------------------------------------------------------
// Archive II volume container
// ---------------------------------------------------------------------------------------------

#[derive(Clone, Debug, PartialEq, Eq, Serialize, Deserialize)]
pub struct VolHeaderSpec {
    pub tape: [u8; 9],
    pub ext: [u8; 3],
    pub date: u32,
    pub time: u32,
    pub icao: [u8; 4],
}

impl VolHeaderSpec {
    pub fn encode(&self) -> [u8; 24] {
        let mut b = [0u8; 24];
        b[0..9].copy_from_slice(&self.tape);
        b[9..12].copy_from_slice(&self.ext);
        put32(&mut b, 12, self.date);
        put32(&mut b, 16, self.time);
        b[20..24].copy_from_slice(&self.icao);
        b
    }
}

/// An LDM record: 4-byte big-endian signed size prefix followed by |size| bytes.
pub fn encode_record(body: &[u8], negative: bool) -> Vec<u8> {
    let n = body.len() as i64;
    let size = if negative { -n } else { n } as i32;
    let mut out = vec![0u8; 4];
    put32(&mut out, 0, size as u32);
    out.extend_from_slice(body);
    out
}

pub fn bzip2_compress(payload: &[u8], level: u32) -> Vec<u8> {
    use bzip2::write::BzEncoder;
    use bzip2::Compression;
    use std::io::Write;
    let mut enc = BzEncoder::new(Vec::new(), Compression::new(level.clamp(1, 9)));
    enc.write_all(payload).expect("in-memory bzip2 write");
    enc.finish().expect("in-memory bzip2 finish")
}

// ---------------------------------------------------------------------------------------------
// Self-checks of the encoder (length identities from the ICD)
// ---------------------------------------------------------------------------------------------

pub fn self_check() -> Result<(), String> {
    let h = MsgHeaderSpec {
        rpg: [0; 12],
        size: 0,
        channel: 0,
        mtype: 0,
        seq: 0,
        date: 0,
        time: 0,
        seg_count: 0,
        seg_num: 0,
    };
    if h.encode().len() != 28 {
        return Err("message header != 28 bytes".into());
    }
    if FRAME_BODY_LEN != 2404 {
        return Err("frame body != 2404".into());
    }
    // 11 halfwords + 23 halfwords per cut; 51 cuts is the most that fits a frame
    if 22 + 46 * 51 > FRAME_BODY_LEN || 22 + 46 * 52 <= FRAME_BODY_LEN {
        return Err("VCP frame capacity is not 51 cuts".into());
    }
    Ok(())
}
