//! C06 fuzz target: volume / record / chunk handling under the harness oracle (no panic, shape clause).
#![no_main]
use libfuzzer_sys::fuzz_target;
use nexrad_verif::props::c06;
use nexrad_verif::{alloc, runner};

#[global_allocator]
static GLOBAL: alloc::Counting = alloc::Counting;
static INIT: std::sync::Once = std::sync::Once::new();

fuzz_target!(|data: &[u8]| {
    INIT.call_once(runner::install_panic_hook);
    if let Err(f) = c06::check_bytes(data) {
        if f.sig.starts_with("inconclusive") {
            return;
        }
        let allow = std::env::var("FUZZ_ALLOW_SIGS").unwrap_or_default();
        if allow.split(',').any(|s| !s.is_empty() && s == f.sig) {
            return;
        }
        eprintln!("ORACLE-FAIL sig={} {}", f.sig, f.detail);
        std::process::abort();
    }
});
