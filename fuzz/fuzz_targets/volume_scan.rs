//! Structured fuzz target: libFuzzer bytes -> (arbitrary::Unstructured) -> generated case -> the property's
//! semantic oracle (volume_scan; see harness/src/ufuzz.rs).  A failed oracle aborts, which libFuzzer saves as a crash.
#![no_main]
use libfuzzer_sys::fuzz_target;
use nexrad_verif::{alloc, runner, ufuzz};

#[global_allocator]
static GLOBAL: alloc::Counting = alloc::Counting;
static INIT: std::sync::Once = std::sync::Once::new();

fuzz_target!(|data: &[u8]| {
    INIT.call_once(runner::install_panic_hook);
    if let Err((f, _, _, _)) = ufuzz::run_target("volume_scan", data) {
        if f.sig.starts_with("inconclusive") {
            return;
        }
        let allow = std::env::var("FUZZ_ALLOW_SIGS").unwrap_or_default();
        if allow.split(',').any(|s| !s.is_empty() && s == f.sig) {
            return;
        }
        eprintln!("ORACLE-FAIL sig={} {}", f.sig, f.detail);
        std::process::abort();
    }
});
