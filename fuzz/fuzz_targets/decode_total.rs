//! C04 fuzz target: every decode entry point under the harness oracle (no panic, allocation bound).
#![no_main]
use libfuzzer_sys::fuzz_target;
use nexrad_verif::props::c04;
use nexrad_verif::{alloc, runner};

#[global_allocator]
static GLOBAL: alloc::Counting = alloc::Counting;
static INIT: std::sync::Once = std::sync::Once::new();

fuzz_target!(|data: &[u8]| {
    // libfuzzer-sys installs a panic hook that aborts before catch_unwind sees anything: wrap it so that
    // panics inside the oracle's guard are recorded instead, and everything else still aborts
    INIT.call_once(runner::install_panic_hook);
    if let Err(f) = c04::check_bytes(data, false) {
        if f.sig.starts_with("inconclusive") {
            return;
        }
        let allow = std::env::var("FUZZ_ALLOW_SIGS").unwrap_or_default();
        if allow.split(',').any(|s| !s.is_empty() && s == f.sig) {
            return;
        }
        eprintln!("ORACLE-FAIL sig={} {}", f.sig, f.detail);
        std::process::abort();
    }
});
