#!/bin/bash
# Coverage-guided libFuzzer campaigns, thorough tier only:
#   byte-level targets      C04 (decode_total), C06 (volume_total): raw bytes into the decode entry points
#   structured targets      C01 (volume_scan), C02 (type31_fidelity), C03 (stream_framing), C14 (summary_model):
#                           bytes -> arbitrary::Unstructured -> generated case -> the property's semantic oracle
# usage: ./fuzz_campaign.sh <C01|C02|C03|C04|C06|C14>
# Built WITHOUT AddressSanitizer (-s none): the three crates forbid unsafe code, the only C code (libbz2) is not
# instrumented by cargo-fuzz anyway, and ASan's mmap traffic on the multi-megabyte buffers these targets
# allocate cut throughput 20-50x on this machine.  The oracle (no panic, allocation bound, shape) is inside the target.
# Fixed work (-runs), 16 independent processes on copies of a generated seed corpus; every saved artifact
# is re-judged by the harness oracle (nexrad-verif <ID> artifact <file>) before it may be reported.
# exit 0 = nothing found; 1 = VIOLATION (confirmed by the harness); 2 = inconclusive
set -u
cd "$(dirname "$0")" || exit 2
ID="$1"
case "$ID" in
  C04) TARGET=decode_total; TOTAL_RUNS=${FUZZ_RUNS:-160000000}; MAXLEN=16384 ;;
  C06) TARGET=volume_total; TOTAL_RUNS=${FUZZ_RUNS:-24000000}; MAXLEN=8192 ;;
  C01) TARGET=volume_scan; TOTAL_RUNS=${FUZZ_RUNS:-4800000}; MAXLEN=8192 ;;
  C02) TARGET=type31_fidelity; TOTAL_RUNS=${FUZZ_RUNS:-96000000}; MAXLEN=4096 ;;
  C03) TARGET=stream_framing; TOTAL_RUNS=${FUZZ_RUNS:-800000}; MAXLEN=8192 ;;
  C14) TARGET=summary_model; TOTAL_RUNS=${FUZZ_RUNS:-16000000}; MAXLEN=8192 ;;
  *) echo "fuzz campaigns exist for C01, C02, C03, C04, C06 and C14"; exit 2 ;;
esac
PROCS=${FUZZ_PROCS:-16}
SEED=${VERIF_SEED:-0}
export CARGO_NET_OFFLINE=true
ROOT=$(pwd)
WORKDIR="$ROOT/work/fuzz-$ID"
BIN="$ROOT/work/fuzz-target-nosan/x86_64-unknown-linux-gnu/release/$TARGET"
HARNESS="$ROOT/work/target/release/nexrad-verif"
T0=$(date +%s)

if ! ( cd fuzz && cargo +nightly fuzz build -s none --fuzz-dir "$ROOT/fuzz" --target-dir "$ROOT/work/fuzz-target-nosan" "$TARGET" ) > "$ROOT/work/fuzz-build-$ID.log" 2>&1; then
  echo "INCONCLUSIVE property=$ID fuzz target failed to build:"; grep -E "^error" -A 8 "$ROOT/work/fuzz-build-$ID.log" | head -40; exit 2
fi
[ -x "$BIN" ] || { echo "INCONCLUSIVE property=$ID fuzz binary missing: $BIN"; exit 2; }

rm -rf "$WORKDIR"; mkdir -p "$WORKDIR/seed" "$WORKDIR/artifacts"
"$HARNESS" "$ID" corpus "$WORKDIR/seed" > /dev/null || { echo "INCONCLUSIVE property=$ID cannot generate the seed corpus"; exit 2; }

PER=$((TOTAL_RUNS / PROCS))
for i in $(seq 0 $((PROCS - 1))); do
  mkdir -p "$WORKDIR/corpus-$i"; cp "$WORKDIR/seed"/* "$WORKDIR/corpus-$i/" 2>/dev/null
  ( cd "$WORKDIR" && "$BIN" "corpus-$i" -runs="$PER" -seed=$((SEED * 100 + i + 1)) -len_control=0 -max_len="$MAXLEN" \
      -timeout=25 -rss_limit_mb=6144 -print_final_stats=1 -artifact_prefix="artifacts/p$i-" > "log-$i.txt" 2>&1 ) &
done
wait

EXECS=0
for i in $(seq 0 $((PROCS - 1))); do
  n=$(grep -E "stat::number_of_executed_units" "$WORKDIR/log-$i.txt" | awk '{print $2}' | tail -1)
  EXECS=$((EXECS + ${n:-0}))
done
# merge the corpora for classification
mkdir -p "$WORKDIR/merged"
for i in $(seq 0 $((PROCS - 1))); do cp -n "$WORKDIR/corpus-$i"/* "$WORKDIR/merged/" 2>/dev/null; done
CLASS=$("$HARNESS" "$ID" classify "$WORKDIR/merged")

RC=0
CONFIRMED=0; DISMISSED=0; INCONCLUSIVE=0
: > "$WORKDIR/triage.txt"
for a in "$WORKDIR"/artifacts/*; do
  [ -f "$a" ] || continue
  out=$("$HARNESS" "$ID" artifact "$a" 2>&1); rc=$?
  echo "$(basename "$a") rc=$rc" >> "$WORKDIR/triage.txt"
  if [ $rc -eq 1 ]; then
    CONFIRMED=$((CONFIRMED + 1)); RC=1
    if [ $CONFIRMED -le 5 ]; then echo "$out" | grep -A1 "^VIOLATION"; fi
  elif [ $rc -eq 2 ]; then INCONCLUSIVE=$((INCONCLUSIVE + 1))
  else DISMISSED=$((DISMISSED + 1)); fi
done
if [ $RC -eq 0 ] && [ $INCONCLUSIVE -gt 0 ]; then RC=2; fi
if [ "$EXECS" -lt $((TOTAL_RUNS / 4)) ] && [ $RC -eq 0 ]; then
  echo "INCONCLUSIVE property=$ID fuzz processes executed only $EXECS of $TOTAL_RUNS planned units (see $WORKDIR/log-*.txt)"; RC=2
fi
T1=$(date +%s)

python3 - "$ID" "$EXECS" "$CLASS" "$CONFIRMED" "$DISMISSED" "$INCONCLUSIVE" "$PROCS" "$TOTAL_RUNS" "$((T1 - T0))" "$ROOT" <<'EOF'
import json, sys
pid, execs, cls, confirmed, dismissed, inconcl, procs, planned, wall, root = sys.argv[1:]
cls = json.loads(cls)
path = f"{root}/evidence/{pid}.json"
ev = json.load(open(path))
cov = ev["coverage"]
cov["fuzz"] = {
    "engine": "libFuzzer via cargo-fuzz (no sanitizer: safe Rust only; oracle inside the target), %s independent processes, fixed work -runs, fresh seeded corpus" % procs,
    "planned_executions": int(planned), "executions": int(execs),
    "merged_corpus_files": cls["files"], "merged_corpus_distinct_nontrivial": cls["distinct_nontrivial"],
    "corpus_samples": cls["samples"],
    "artifacts_confirmed_by_harness": int(confirmed), "artifacts_dismissed": int(dismissed), "artifacts_inconclusive": int(inconcl),
    "wall_s": int(wall),
}
cov["evaluations"] = cov["evaluations"] + int(execs)
cov["distinct_nontrivial"] = cov["distinct_nontrivial"] + cls["distinct_nontrivial"]
cov["rule"] += " || [fuzz] coverage-guided libFuzzer executions with the same oracle inside the target; counted as evaluations = executed units, distinct non-trivial = non-trivial entries of the final merged (deduplicated) corpus"
ev["violations"] = ev.get("violations", 0) + int(confirmed)
ev["wall_s"] = ev["wall_s"] + int(wall)
json.dump(ev, open(path, "w"), indent=1)
EOF
echo "$ID fuzz: executions=$EXECS corpus=$CLASS confirmed=$CONFIRMED dismissed=$DISMISSED inconclusive=$INCONCLUSIVE wall=$((T1 - T0))s"
exit $RC
